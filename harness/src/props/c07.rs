//! C07 — raw layout exported to GDSII and imported back is unchanged.
//!
//! Parts:
//!  * `lib`   choice-driven raw libraries: 1..3 cells in every listing order, instances in all 8 orientations,
//!            a focus shape (7 families x variants) x (layer, purpose) x net, second shapes, units;
//!  * `poly`  dense: every simple polygon with 3..5 (thorough 6) vertices on a 4x4 grid scaled x10 that is not an axis-parallel rectangle, as a named shape.
//!
//! Oracle: exact integer geometry for "the label lies inside its shape"; exact point lists for paths; the
//! re-imported library compared with the original through the neutral view (`rawview` / `rawspec`).

use crate::core::*;
use crate::explore::Chooser;
use crate::props::c06::perm;
use crate::props::rawspec::{self, CmpMode, SCell, SGeom, SInst, SLayout, SShape, Spec};
use crate::props::rawview;
use crate::refmodel::gdsflat::{self, bag_of, In};
use crate::refmodel::geom::{self, P};
use gds21::{GdsElement, GdsLibrary};
use layout21raw::utils::Ptr;
use layout21raw::{Library, Units};
use serde_json::{json, Value};

const MODE: CmpMode = CmpMode { lib_name: false, inst_list_with_names: false, annotations: false, abstracts: false, layout_name: false };

// ---------------------------------------------------------------------------------------------------
// shape alphabet
// ---------------------------------------------------------------------------------------------------

pub const FAMILIES: [&str; 7] = ["rect", "L", "U", "45deg", "T-stair-plus", "general", "path"];
const FAMILY_TAGS: [&str; 7] = ["family:rect", "family:L", "family:U", "family:45deg", "family:T-stair-plus", "family:general", "family:path"];

fn rotate_cycle(p: &[P], k: usize) -> Vec<P> {
    (0..p.len()).map(|i| p[(i + k) % p.len()]).collect()
}
fn reversed(p: &[P]) -> Vec<P> {
    let mut v = p.to_vec();
    v[1..].reverse();
    v
}

/// variants of a family, simplest first
pub fn family(f: usize) -> Vec<(&'static str, SGeom)> {
    let l = vec![(0, 0), (60, 0), (60, 20), (20, 20), (20, 50), (0, 50)];
    let u = vec![(0, 0), (0, 100), (20, 100), (20, 20), (80, 20), (80, 100), (100, 100), (100, 0)];
    match f {
        0 => vec![
            ("rect p0<p1", SGeom::Rect((10, 5), (40, 25))),
            ("rect p0>p1", SGeom::Rect((40, 25), (10, 5))),
            ("rect upper-left/lower-right", SGeom::Rect((10, 25), (40, 5))),
            ("rect lower-right/upper-left", SGeom::Rect((40, 5), (10, 25))),
            ("rect negative coordinates", SGeom::Rect((-40, -25), (-11, -6))),
            ("rect tall (vertical label)", SGeom::Rect((10, 5), (20, 85))),
            // the label (truncated centre) lands on the shape's maximum edge
            ("rect 1 unit wide at negative x", SGeom::Rect((-3, 0), (-2, 10))),
            ("rect 1 unit tall at negative y", SGeom::Rect((0, -8), (30, -7))),
            ("rect 1 unit wide, corners swapped", SGeom::Rect((-2, 10), (-3, 0))),
            // the limits of the 32-bit coordinates GDSII can carry
            ("rect at the lowest coordinates", SGeom::Rect((-2147483648, -2147483648), (-2147483600, -2147483640))),
            ("rect at the highest coordinates", SGeom::Rect((2147483600, 2147483640), (2147483647, 2147483647))),
            // rectangles without area are shapes all the same
            ("rect of zero width", SGeom::Rect((5, 0), (5, 30))),
            ("rect of zero height, corners swapped", SGeom::Rect((40, 7), (0, 7))),
        ],
        1 => vec![("L (bbox centre outside)", SGeom::Poly(l.clone())), ("L from the reflex vertex", SGeom::Poly(rotate_cycle(&l, 3))), ("L clockwise", SGeom::Poly(reversed(&l)))],
        2 => vec![("U (bbox centre outside)", SGeom::Poly(u.clone())), ("U from an inner vertex", SGeom::Poly(rotate_cycle(&u, 3))), ("U reversed", SGeom::Poly(reversed(&u)))],
        3 => vec![
            ("right triangle", SGeom::Poly(vec![(0, 0), (40, 0), (0, 40)])),
            ("right triangle at the lowest x and highest y", SGeom::Poly(vec![(-2147483648, 2147483607), (-2147483608, 2147483607), (-2147483648, 2147483647)])),
            ("diamond", SGeom::Poly(vec![(20, 0), (40, 20), (20, 40), (0, 20)])),
            ("octagon", SGeom::Poly(vec![(10, 0), (30, 0), (40, 10), (40, 30), (30, 40), (10, 40), (0, 30), (0, 10)])),
            ("45-degree chevron (bbox centre outside)", SGeom::Poly(vec![(0, 0), (20, 20), (40, 0), (40, 10), (20, 30), (0, 10)])),
            // 2e8 units wide: the bounding-box centre misses the hypotenuse by a cross product of 1 (needs more than 53 bits)
            // (they start at x = 1000, clear of the other shapes of the alphabet, which lie left of that)
            ("large triangle whose bbox centre is just outside", SGeom::Poly(vec![(1000, 0), (200001001, 200000003), (200001001, 0)])),
            ("large triangle whose bbox centre is just inside", SGeom::Poly(vec![(1000, 0), (200001001, 200000001), (200001001, 0)])),
        ],
        4 => vec![
            ("T", SGeom::Poly(vec![(20, 0), (40, 0), (40, 40), (60, 40), (60, 60), (0, 60), (0, 40), (20, 40)])),
            ("staircase", SGeom::Poly(vec![(0, 0), (60, 0), (60, 60), (40, 60), (40, 40), (20, 40), (20, 20), (0, 20)])),
            ("plus", SGeom::Poly(vec![(20, 0), (40, 0), (40, 20), (60, 20), (60, 40), (40, 40), (40, 60), (20, 60), (20, 40), (0, 40), (0, 20), (20, 20)])),
        ],
        5 => vec![
            ("dart", SGeom::Poly(vec![(0, 0), (40, 10), (0, 20), (10, 10)])),
            ("sliver triangle", SGeom::Poly(vec![(0, 0), (60, 10), (60, 20)])),
            // the truncated bounding-box centre (2,1) lies outside, between nothing: only boundary points are integral
            ("tiny sliver triangle (odd width, bbox centre outside)", SGeom::Poly(vec![(0, 0), (5, 1), (5, 2)])),
            ("tiny sliver triangle from its far end", SGeom::Poly(vec![(5, 2), (0, 0), (5, 1)])),
            ("boomerang from its tip (no axis neighbour of the first vertex inside, bbox centre outside)", SGeom::Poly(vec![(0, 0), (30, 25), (60, 0), (30, 30)])),
            ("boomerang from its notch", SGeom::Poly(vec![(30, 25), (60, 0), (30, 30), (0, 0)])),
        ],
        _ => vec![
            ("path 2 segments w4", SGeom::Path(vec![(0, 0), (40, 0), (40, 30)], 4)),
            ("path 1 segment", SGeom::Path(vec![(0, 0), (40, 0)], 4)),
            ("path from the lowest x", SGeom::Path(vec![(-2147483648, 7), (-2147483600, 7), (-2147483600, 40)], 4)),
            ("path vertical", SGeom::Path(vec![(0, 0), (0, 40)], 4)),
            ("path 3 segments w2", SGeom::Path(vec![(0, 0), (40, 0), (40, 30), (10, 30)], 2)),
            ("path odd width", SGeom::Path(vec![(0, 0), (40, 0)], 3)),
            ("path of width 0", SGeom::Path(vec![(0, 0), (100, 0), (100, 60), (40, 60)], 0)),
            ("path unit first segment", SGeom::Path(vec![(0, 0), (1, 0), (1, 30)], 4)),
            // the label (midpoint of the first segment) lies on the edge of the segment's rectangle
            ("path width 1", SGeom::Path(vec![(0, 0), (100, 0), (100, 50)], 1)),
            ("path width 1 drawn right-to-left at negative coordinates", SGeom::Path(vec![(-10, -5), (-51, -5), (-51, -40)], 1)),
            ("path drawn top-to-bottom", SGeom::Path(vec![(0, 40), (0, 0), (30, 0)], 4)),
            // a ring: the path returns to its first point (it is still an open point list, 5 points)
            ("path ring returning to its start", SGeom::Path(vec![(0, 0), (100, 0), (100, 100), (0, 100), (0, 0)], 10)),
            ("path out and back", SGeom::Path(vec![(0, 0), (50, 0), (0, 0)], 2)),
        ],
    }
}

const LOCS: [P; 5] = [(300, -200), (0, 0), (-7, 1000), (100000, -100000), (-2147483648, 2147483647)];
const ORIENT_TAGS: [&str; 8] = ["inst:R0", "inst:R90", "inst:R180", "inst:R270", "inst:MX", "inst:MX-R90", "inst:MX-R180", "inst:MX-R270"];
const NETS: [Option<&str>; 3] = [None, Some("vdd"), Some("VDD_Core")];
const NET_TAGS: [&str; 3] = ["net:none", "net:lower-case", "net:Mixed-Case"];
const LP: [(usize, usize); 9] = [(0, 0), (0, 1), (1, 0), (1, 1), (0, 3), (0, 4), (1, 2), (3, 0), (4, 0)];
const LP_TAGS: [&str; 9] = ["lp:la/drawing", "lp:la/pin", "lp:lb/drawing", "lp:lb/other7", "lp:la/obstruction", "lp:la/outline", "lp:lb/label", "lp:layer-1000/drawing", "lp:layer-32767/drawing"];
const UNITS: [Units; 4] = [Units::Nano, Units::Micro, Units::Angstrom, Units::Pico];
const UNIT_TAGS: [&str; 4] = ["units:nano", "units:micro", "units:angstrom", "units:pico"];
const CELL_NAMES: [&str; 3] = ["c0_top", "c1", "c2"];

pub struct Case {
    pub spec: Spec,
    pub tags: Vec<&'static str>,
}

fn gen_inst(c: &mut Chooser, idx: usize, target: &str, tags: &mut Vec<&'static str>) -> Vec<SInst> {
    let o = c.free(8, "orientation");
    tags.push(ORIENT_TAGS[o]);
    let (reflect, q) = (o >= 4, o % 4);
    let angle = if q == 0 {
        if c.cost(2, "angle-spelling") == 1 {
            tags.push("inst:angle-Some(0)");
            Some(0.0)
        } else {
            None
        }
    } else {
        Some(90.0 * q as f64)
    };
    let loc = c.cost_of(&LOCS, "inst-loc");
    let mut v = vec![SInst { name: format!("i{idx}"), cell: target.into(), loc, reflect, angle }];
    // a second placement of the same cell: elsewhere, or on the very same origin in another orientation
    match c.cost(3, "second-placement") {
        1 => {
            tags.push("inst:second-placement");
            v.push(SInst { name: format!("i{idx}b"), cell: target.into(), loc: (loc.0 + 777, loc.1 - 55), reflect: !reflect, angle: Some(180.0) });
        }
        2 => {
            tags.push("inst:second-placement");
            v.push(SInst { name: format!("i{idx}b"), cell: target.into(), loc, reflect: !reflect, angle: Some(180.0) });
        }
        _ => {}
    }
    v
}

fn gen_lib(c: &mut Chooser) -> Case {
    let mut tags: Vec<&'static str> = vec![];
    let u = c.cost(4, "units");
    tags.push(UNIT_TAGS[u]);
    let n = 1 + c.free(3, "cells");
    tags.push(["cells:1", "cells:2", "cells:3"][n - 1]);
    let order = perm(n, c.free((1..=n).product(), "listing-order"));
    let mut cells: Vec<SCell> = (0..n).map(|k| SCell { name: CELL_NAMES[k].into(), layout: Some(SLayout::default()), abs: None, view_names: None }).collect();
    for k in 0..n.saturating_sub(1) {
        let insts = gen_inst(c, k, CELL_NAMES[k + 1], &mut tags);
        let lay = cells[k].layout.as_mut().unwrap();
        lay.insts.extend(insts);
        // own geometry of a non-leaf cell, far away from everything else on its layer
        let named = c.cost(2, "non-leaf-shape-named") == 1;
        lay.shapes.push(SShape { layer: 0, purpose: 0, geom: SGeom::Rect((1000, 1000), (1040, 1030)), net: if named { Some("Mid".into()) } else { None } });
    }
    if n == 3 && c.cost(2, "top-also-places-leaf") == 1 {
        tags.push("inst:shared-leaf");
        cells[0].layout.as_mut().unwrap().insts.push(SInst { name: "skip".into(), cell: CELL_NAMES[2].into(), loc: (5000, 7000), reflect: true, angle: Some(270.0) });
    }
    // the focus shape lives in the last cell
    let f = c.free(FAMILIES.len(), "shape-family");
    tags.push(FAMILY_TAGS[f]);
    let variants = family(f);
    let v = c.cost(variants.len(), "shape-variant");
    let lp = c.free(LP.len(), "layer-purpose");
    tags.push(LP_TAGS[lp]);
    let net = c.free(3, "net");
    tags.push(NET_TAGS[net]);
    // a mixed-case name may also hold an upper-case letter outside ASCII (lower-casing is not ASCII-only)
    let uni = if net == 2 { c.cost(2, "net-non-ascii-upper-case") } else { 0 };
    if uni == 1 {
        tags.push("net:non-ascii-upper-case");
    }
    let focus = SShape { layer: LP[lp].0, purpose: LP[lp].1, geom: variants[v].1.clone(), net: if uni == 1 { Some("\u{dc}BER_Net".to_string()) } else { NETS[net].map(|s| s.to_string()) } };
    // options 5..=20: a named 2x2 neighbour on the same layer and purpose, one unit outside the focus shape's (flush)
    // bounding box on each of its four sides, level with the shape's first / last listed point, listed before / after
    // options 21..=24: the same on each side, but the neighbour is one unit thick and starts right after the focus
    // shape's true extent (a path of odd width w reaches w/2 to each side, so the neighbour - and its label, which sits
    // on one of its two edges - starts (w+1)/2 from the centre line: next to the path, not on it)
    // option 25: a differently named 4x4 rectangle inside a (large enough) focus rectangle, listed after it and away
    // from its label point: both keep their names (the label of the inner one also lies in the outer one)
    let second = c.cost(26, "second-shape");
    tags.push(["second:none", "second:unnamed-same-layer-purpose", "second:named-same-layer-other-purpose", "second:named-other-layer-same-place", "second:named-listed-first", "second:neighbour-one-unit-away"][second.min(5)]);
    let far = SGeom::Rect((300, 300), (340, 330));
    let leaf = cells[n - 1].layout.as_mut().unwrap();
    match second {
        1 => {
            leaf.shapes.push(focus);
            leaf.shapes.push(SShape { layer: LP[lp].0, purpose: LP[lp].1, geom: far, net: None });
        }
        2 => {
            leaf.shapes.push(focus);
            leaf.shapes.push(SShape { layer: LP[lp].0, purpose: if LP[lp].1 == 0 { 1 } else { 0 }, geom: far, net: Some("Other".into()) });
        }
        3 => {
            leaf.shapes.push(focus);
            leaf.shapes.push(SShape { layer: if LP[lp].0 == 0 { 1 } else { 0 }, purpose: 0, geom: family(1)[0].1.clone(), net: Some("Other".into()) });
        }
        4 => {
            leaf.shapes.push(SShape { layer: LP[lp].0, purpose: LP[lp].1, geom: far, net: Some("Other".into()) });
            leaf.shapes.push(focus);
        }
        25 => {
            let inner = match &focus.geom {
                // (an unnamed outer rectangle would take the inner one's name: outside the statement)
                SGeom::Rect(a, b) if focus.net.is_some() && (a.0 - b.0).abs() >= 20 && (a.1 - b.1).abs() >= 12 && a.0.abs() < 1_000_000 => {
                    let (x0, y0) = (a.0.min(b.0), a.1.min(b.1));
                    Some(SGeom::Rect((x0 + 2, y0 + 2), (x0 + 6, y0 + 6)))
                }
                _ => None,
            };
            let (l, p) = (LP[lp].0, LP[lp].1);
            leaf.shapes.push(focus);
            if let Some(g) = inner {
                leaf.shapes.push(SShape { layer: l, purpose: p, geom: g, net: Some("Inner".into()) });
            }
        }
        k if k >= 5 => {
            let thin = k >= 21;
            let mut focus = focus;
            if thin {
                // ... and a path gets an odd width (w4 -> w5)
                if let SGeom::Path(_, w) = &mut focus.geom {
                    *w |= 1;
                }
            }
            let (side, anchor_last, first) = if thin { (k - 21, false, false) } else { ((k - 5) % 4, ((k - 5) / 4) % 2 == 1, (k - 5) / 8 == 1) };
            let (pts, half): (Vec<(i64, i64)>, i64) = match &focus.geom {
                SGeom::Rect(a, b) => (vec![*a, *b], 0),
                SGeom::Poly(v) => (v.clone(), 0),
                SGeom::Path(v, w) => (v.clone(), if thin { *w / 2 } else { (*w + 1) / 2 }),
            };
            // flush bounding box: a path is widened sideways only (end-points are not extended)
            let (mut x0, mut y0, mut x1, mut y1) = (i64::MAX, i64::MAX, i64::MIN, i64::MIN);
            if half == 0 {
                for p in &pts {
                    (x0, y0, x1, y1) = (x0.min(p.0), y0.min(p.1), x1.max(p.0), y1.max(p.1));
                }
            } else {
                for w in pts.windows(2) {
                    let (a, b) = (w[0], w[1]);
                    let (hx, hy) = if a.1 == b.1 { (0, half) } else if a.0 == b.0 { (half, 0) } else { (half, half) };
                    (x0, y0, x1, y1) = (x0.min(a.0.min(b.0) - hx), y0.min(a.1.min(b.1) - hy), x1.max(a.0.max(b.0) + hx), y1.max(a.1.max(b.1) + hy));
                }
            }
            let anchor = if anchor_last { *pts.last().unwrap() } else { pts[0] };
            let nb = match side {
                0 if thin => SGeom::Rect((x0 - 2, anchor.1 - 1), (x0 - 1, anchor.1 + 1)),
                1 if thin => SGeom::Rect((x1 + 1, anchor.1 - 1), (x1 + 2, anchor.1 + 1)),
                2 if thin => SGeom::Rect((anchor.0 - 1, y0 - 2), (anchor.0 + 1, y0 - 1)),
                _ if thin => SGeom::Rect((anchor.0 - 1, y1 + 1), (anchor.0 + 1, y1 + 2)),
                0 => SGeom::Rect((x0 - 3, anchor.1 - 1), (x0 - 1, anchor.1 + 1)),
                1 => SGeom::Rect((x1 + 1, anchor.1 - 1), (x1 + 3, anchor.1 + 1)),
                2 => SGeom::Rect((anchor.0 - 1, y0 - 3), (anchor.0 + 1, y0 - 1)),
                _ => SGeom::Rect((anchor.0 - 1, y1 + 1), (anchor.0 + 1, y1 + 3)),
            };
            // a neighbour that would leave the 32-bit coordinate range GDSII can carry is left out (the focus shapes at
            // the limits of that range have no room on that side)
            let in_range = match &nb {
                SGeom::Rect(a, b) => [a.0, a.1, b.0, b.1].iter().all(|v| *v >= i32::MIN as i64 && *v <= i32::MAX as i64),
                _ => true,
            };
            let nbs = SShape { layer: LP[lp].0, purpose: LP[lp].1, geom: nb, net: Some("Nbr".into()) };
            if !in_range {
                leaf.shapes.push(focus);
            } else if first {
                leaf.shapes.push(nbs);
                leaf.shapes.push(focus);
            } else {
                leaf.shapes.push(focus);
                leaf.shapes.push(nbs);
            }
        }
        _ => leaf.shapes.push(focus),
    }
    // cell names that differ only in letter case (c0_top / C0_TOP-like pairs): the second cell becomes the upper-case
    // spelling of the first one's name
    // (option 2: the second cell goes by a name of 44 characters instead)
    let name_alt = if n >= 2 { c.cost(3, "cell-names-differ-in-case-only") } else { 0 };
    if name_alt != 0 {
        tags.push("names:case-variants");
        let upper = if name_alt == 1 { CELL_NAMES[0].to_uppercase() } else { format!("a_cell_name_longer_than_thirty_two_characters_{}", 1) };
        let old = CELL_NAMES[1];
        for cell in cells.iter_mut() {
            if cell.name == old {
                cell.name = upper.clone();
            }
            if let Some(l) = cell.layout.as_mut() {
                for i in l.insts.iter_mut() {
                    if i.cell == old {
                        i.cell = upper.clone();
                    }
                }
            }
        }
    }
    // a cell without any content (no shapes, no instances): alone, or placed by the first cell
    let blank = c.cost(3, "blank-cell");
    tags.push(["blank:none", "blank:unreferenced", "blank:instantiated"][blank]);
    let mut slots: Vec<Option<SCell>> = cells.into_iter().map(Some).collect();
    let mut listed: Vec<SCell> = order.iter().map(|&i| slots[i].take().unwrap()).collect();
    if blank > 0 {
        if blank == 2 {
            let top = listed.iter_mut().find(|c| c.name == CELL_NAMES[0]).unwrap();
            top.layout.as_mut().unwrap().insts.push(SInst { name: "iblank".into(), cell: "blank".into(), loc: (-500, 40), reflect: false, angle: None });
        }
        let bc = SCell { name: "blank".into(), layout: Some(SLayout::default()), abs: None, view_names: None };
        if blank == 2 {
            listed.insert(0, bc);
        } else {
            listed.push(bc);
        }
    }
    Case { spec: Spec { name: "rawlib".into(), units: UNITS[u], cells: listed }, tags }
}

// ---------------------------------------------------------------------------------------------------
// oracle
// ---------------------------------------------------------------------------------------------------

fn inside(g: &SGeom, q: P) -> In {
    match g {
        SGeom::Rect(a, b) => {
            if geom::in_closed_rect(q, *a, *b) {
                In::Yes
            } else {
                In::No
            }
        }
        SGeom::Poly(p) => {
            if geom::in_closed_poly(q, p) {
                In::Yes
            } else {
                In::No
            }
        }
        SGeom::Path(p, w) => gdsflat::path_region(p, *w, q),
    }
}

fn spec_paths(spec: &Spec) -> impl Iterator<Item = (&SShape, &Vec<P>, i64)> {
    spec.cells.iter().filter_map(|c| c.layout.as_ref()).flat_map(|l| l.shapes.iter()).filter_map(|s| match &s.geom {
        SGeom::Path(p, w) => Some((s, p, *w)),
        _ => None,
    })
}
/// the recorded defect "every path is exported closed": the spec with the first point appended to every path
fn closed_paths_model(spec: &Spec) -> Spec {
    let mut s = spec.clone();
    for c in s.cells.iter_mut() {
        if let Some(l) = c.layout.as_mut() {
            for sh in l.shapes.iter_mut() {
                if let SGeom::Path(p, _) = &mut sh.geom {
                    let first = p[0];
                    p.push(first);
                }
            }
        }
    }
    s
}
/// input predicate of the recorded polygon-label limitation: neither the bbox centre nor any axis neighbour of
/// the first vertex lies in the closed polygon
fn polygon_without_candidate_label_point(spec: &Spec) -> bool {
    spec.cells.iter().filter_map(|c| c.layout.as_ref()).flat_map(|l| l.shapes.iter()).any(|s| match (&s.geom, &s.net) {
        (SGeom::Poly(p), Some(_)) => {
            let (x0, x1) = (p.iter().map(|q| q.0).min().unwrap(), p.iter().map(|q| q.0).max().unwrap());
            let (y0, y1) = (p.iter().map(|q| q.1).min().unwrap(), p.iter().map(|q| q.1).max().unwrap());
            let centre = ((x0 + x1) / 2, (y0 + y1) / 2);
            let v = p[0];
            ![centre, (v.0, v.1 - 1), (v.0 - 1, v.1), (v.0, v.1 + 1), (v.0 + 1, v.1)].iter().any(|q| geom::in_closed_poly(*q, p))
        }
        _ => false,
    })
}

type Fail = (&'static str, Option<&'static str>, String);

/// checks on the exported GDS library itself: labels inside their shapes, paths keep exactly their points
fn check_gds(spec: &Spec, gds: &GdsLibrary, cx: &mut Cx) -> Vec<Fail> {
    let mut out: Vec<Fail> = vec![];
    for c in &spec.cells {
        let Some(l) = &c.layout else { continue };
        let Some(st) = gds.structs.iter().find(|s| s.name == c.name) else {
            out.push(("struct-missing", None, format!("cell {} has no GDS struct", c.name)));
            continue;
        };
        let texts: Vec<(i16, &str, P)> = st
            .elems
            .iter()
            .filter_map(|e| match e {
                GdsElement::GdsTextElem(t) => Some((t.layer, t.string.as_str(), (t.xy.x as i64, t.xy.y as i64))),
                _ => None,
            })
            .collect();
        let named: Vec<&SShape> = l.shapes.iter().filter(|s| s.net.is_some()).collect();
        for (layer, string, at) in &texts {
            let mut verdict = In::No;
            for s in &named {
                if rawspec::layer_num(s.layer) == *layer && s.net.as_ref().unwrap().eq_ignore_ascii_case(string) {
                    match inside(&s.geom, *at) {
                        In::Yes => verdict = In::Yes,
                        In::DontCare if verdict == In::No => verdict = In::DontCare,
                        _ => {}
                    }
                }
            }
            match verdict {
                In::Yes => cx.tag("gds:label-inside-its-shape"),
                In::DontCare => cx.tag("gds:label-in-path-corner-zone-not-judged"),
                In::No => out.push(("label-outside-shape", None, format!("cell {}: exported label {:?} on layer {} at {:?} lies in no shape of that net on that layer (exact geometry); shapes {:?}", c.name, string, layer, at, named))),
            }
        }
        for s in &named {
            let ok = texts.iter().any(|(layer, string, at)| rawspec::layer_num(s.layer) == *layer && s.net.as_ref().unwrap().eq_ignore_ascii_case(string) && inside(&s.geom, *at) != In::No);
            if !ok {
                out.push(("label-missing", None, format!("cell {}: no label for net {:?} inside shape {:?}", c.name, s.net, s.geom)));
            }
        }
        // paths
        let want = bag_of(l.shapes.iter().filter_map(|s| match &s.geom {
            SGeom::Path(p, w) => Some((rawspec::layer_num(s.layer), rawspec::purpose_num(s.layer, s.purpose), *w, p.clone())),
            _ => None,
        }));
        let got = bag_of(st.elems.iter().filter_map(|e| match e {
            GdsElement::GdsPath(p) => Some((p.layer, p.datatype, p.width.unwrap_or(-1) as i64, p.xy.iter().map(|q| (q.x as i64, q.y as i64)).collect::<Vec<P>>())),
            _ => None,
        }));
        if want != got {
            let closed = bag_of(want.iter().flat_map(|((l, d, w, p), n)| {
                let mut q = p.clone();
                q.push(p[0]);
                std::iter::repeat((*l, *d, *w, q)).take(*n as usize)
            }));
            let f = if got == closed { Some("path_exported_closed") } else { None };
            out.push(("path-points-changed", f, format!("cell {}: paths (layer, datatype, width, points) {:?} were exported as {:?}", c.name, want, got)));
        } else if !want.is_empty() {
            cx.tag("gds:path-points-exact");
        }
    }
    out
}

fn check_spec(spec: &Spec, key: &str, cx: &mut Cx) {
    let lib = rawspec::build_raw(spec);
    let input = || truncate(&format!("{:?}", spec), 700);
    let gds = match guard(|| lib.to_gds()) {
        Err(p) => {
            cx.outcome("export-panic");
            cx.fail(key, "export-panic", None, || format!("to_gds panicked: {}; input {}", p.short(), input()), || Value::Null);
            return;
        }
        Ok(Err(e)) => {
            let msg = truncate(&format!("{e:?}"), 200);
            let f = if msg.contains("No valid label location") && polygon_without_candidate_label_point(spec) { Some("polygon_label_location_not_found") } else { None };
            cx.outcome("export-error");
            cx.fail(key, "export-error", f, || format!("to_gds returned Err: {msg}; input {}", input()), || Value::Null);
            return;
        }
        Ok(Ok(g)) => g,
    };
    let mut fails: Vec<Fail> = check_gds(spec, &gds, cx);
    let has_multi_segment_path = spec_paths(spec).any(|(_, p, _)| p.len() > 2);
    let has_path = spec_paths(spec).next().is_some();
    let exp = rawspec::expected_view(spec, true);
    let mut all_ok = true;
    for with_layers in [false, true] {
        let layers = if with_layers { Some(Ptr::clone(&lib.layers)) } else { None };
        let how = if with_layers { "the original Layers" } else { "fresh Layers" };
        match guard(|| Library::from_gds(&gds, layers).map(|l| (rect_corners(&l), rawview::view(&l))).map(|(r, v)| v.map(|v| (v, r)))) {
            Err(p) => {
                all_ok = false;
                let f = if p.msg.contains("Non-Manhattan") && has_multi_segment_path { Some("closed_path_reimport_panics") } else { None };
                fails.push(("reimport-panic", f, format!("from_gds (with {how}) of the exported library panicked: {}", p.short())));
            }
            Ok(Err(e)) => {
                all_ok = false;
                let msg = truncate(&format!("{e:?}"), 200);
                let f = if spec.units == Units::Pico && msg.contains("Unsupported GDSII Units") { Some("pico_units_not_importable") } else { None };
                fails.push(("reimport-error", f, format!("from_gds (with {how}) of the exported library returned Err: {msg}")));
            }
            Ok(Ok(Err(m))) => {
                all_ok = false;
                fails.push(("reimport-unreadable", None, format!("re-imported library (with {how}) cannot be read: {m}")));
            }
            Ok(Ok(Ok((got, got_rects)))) => {
                // a rectangle keeps its two corner points as they were given (p0 stays p0), not just its outline
                for (cell, a, b) in spec_rects(spec) {
                    if got_rects.iter().any(|(c, p0, p1)| *c == cell && *p0 == a && *p1 == b) {
                        continue;
                    }
                    let norm = |a: (i64, i64), b: (i64, i64)| ((a.0.min(b.0), a.1.min(b.1)), (a.0.max(b.0), a.1.max(b.1)));
                    if let Some((_, p0, p1)) = got_rects.iter().find(|(c, p0, p1)| *c == cell && norm(*p0, *p1) == norm(a, b)) {
                        all_ok = false;
                        fails.push(("rect-corners-reordered", None, format!("round trip with {how}: cell {cell}: rectangle given by the corners {a:?}, {b:?} comes back with the corners {p0:?}, {p1:?}")));
                    }
                }
                let d = rawspec::compare_views(&exp, &got, MODE);
                if !d.is_empty() {
                    all_ok = false;
                    let f = if has_path && rawspec::compare_views(&rawspec::expected_view(&closed_paths_model(spec), true), &got, MODE).is_empty() { Some("path_exported_closed") } else { None };
                    fails.push((d[0].0, f, format!("round trip with {how}: {}", d.iter().map(|x| x.1.clone()).collect::<Vec<_>>().join(" // "))));
                }
            }
        }
    }
    if fails.is_empty() && all_ok {
        cx.outcome("ok");
        return;
    }
    cx.outcome(fails[0].0);
    // one report per distinct (signature, finding)
    let mut seen: Vec<(&str, Option<&str>)> = vec![];
    for (sig, f, what) in &fails {
        if seen.contains(&(*sig, *f)) {
            continue;
        }
        seen.push((*sig, *f));
        cx.fail(key, sig, *f, || format!("{what}; input {}", input()), || json!({"input": rawspec::render(spec)}));
    }
}

/// (cell name, p0, p1) of every rectangle element of a raw library
fn rect_corners(lib: &Library) -> Vec<(String, (i64, i64), (i64, i64))> {
    let mut out = vec![];
    for c in lib.cells.iter() {
        if let Ok(c) = c.read() {
            if let Some(l) = &c.layout {
                for e in &l.elems {
                    if let layout21raw::Shape::Rect(r) = &e.inner {
                        out.push((c.name.clone(), (r.p0.x as i64, r.p0.y as i64), (r.p1.x as i64, r.p1.y as i64)));
                    }
                }
            }
        }
    }
    out
}
/// (cell name, first corner, second corner) of every rectangle of the description
fn spec_rects(spec: &Spec) -> Vec<(String, (i64, i64), (i64, i64))> {
    let mut out = vec![];
    for c in &spec.cells {
        if let Some(l) = &c.layout {
            for s in &l.shapes {
                if let SGeom::Rect(a, b) = &s.geom {
                    out.push((c.name.clone(), *a, *b));
                }
            }
        }
    }
    out
}

// ---------------------------------------------------------------------------------------------------
// part `lib`
// ---------------------------------------------------------------------------------------------------

pub struct C07Lib;
impl CaseDriver for C07Lib {
    type Case = Case;
    fn id(&self) -> &'static str {
        "C07"
    }
    fn describe(&self, tier: Tier) -> Describe {
        Describe {
            rule: format!(
                "raw libraries of 1..3 cells (chain c0 -> c1 -> c2) listed in every order; every instance in all 8 orientations (free); the last cell holds a focus shape: family {FAMILIES:?} (free) x (layer, purpose) in 2 layers x 2 purposes plus obstruction, outline and label purposes and layers numbered 1000 and 32767 (free) x net absent / lower-case / Mixed-Case (free; the mixed-case name optionally with an upper-case letter outside ASCII, costed); costed (deviation bound {}): shape variant within the family (both corner orders and mixed corners of rectangles, start vertex and direction of polygons, 1..3 segment paths, widths 2/3/4), units Nano/Micro/Angstrom/Pico, instance offsets {LOCS:?}, angle None vs Some(0), a second placement (elsewhere / on the same origin in another orientation), the top also placing the leaf, named non-leaf shape, a second shape (unnamed same layer+purpose / named same layer other purpose / named other layer same place / named listed first / a named 2x2 neighbour one unit outside the shape's flush bounding box on each side, level with its first or last point, listed before or after; or a neighbour one unit thick starting right after the true extent of the shape, a path then given an odd width; or a differently named small rectangle inside a focus rectangle, listed after it), unit-wide rectangles at negative coordinates, width-1 / backwards-drawn / ring / out-and-back paths (variants of the families), a blank cell (unreferenced / instantiated), two cells whose names differ only in letter case, a cell name of more than 32 characters. Non-trivial = has an instance or a net.",
                self.bound(tier)
            ),
            assumptions: assumptions(),
            excluded: excluded(),
            technique: technique(),
        }
    }
    fn bound(&self, t: Tier) -> usize {
        t.pick(1, 2)
    }
    fn unit_target(&self, _t: Tier) -> usize {
        4000
    }
    fn gen(&self, _t: Tier, c: &mut Chooser) -> Case {
        gen_lib(c)
    }
    fn render(&self, case: &Case) -> Value {
        rawspec::render(&case.spec)
    }
    fn check(&self, case: &Case, key: &str, cx: &mut Cx) {
        if let Err(e) = self_check() {
            cx.machinery(format!("C07 self-check failed: {e}"));
            return;
        }
        let nontrivial = case.spec.cells.iter().filter_map(|c| c.layout.as_ref()).any(|l| !l.insts.is_empty() || l.shapes.iter().any(|s| s.net.is_some()));
        cx.state(hash_debug(&case.spec), nontrivial);
        for t in &case.tags {
            cx.tag(t);
        }
        check_spec(&case.spec, key, cx);
    }
    fn guards(&self, _tier: Tier, stats: &Stats, _distinct: u64) -> Result<(), String> {
        require_tags(stats, &FAMILY_TAGS)?;
        require_tags(stats, &ORIENT_TAGS)?;
        require_tags(stats, &NET_TAGS)?;
        require_tags(stats, &["net:non-ascii-upper-case"])?;
        require_tags(stats, &LP_TAGS)?;
        require_tags(stats, &UNIT_TAGS)?;
        require_tags(stats, &["cells:1", "cells:2", "cells:3", "inst:angle-Some(0)", "inst:second-placement", "inst:shared-leaf", "second:named-same-layer-other-purpose", "second:named-other-layer-same-place", "second:named-listed-first", "second:neighbour-one-unit-away", "blank:unreferenced", "blank:instantiated", "names:case-variants", "gds:label-inside-its-shape"])?;
        require_outcomes(stats, &["ok"])
    }
}

fn assumptions() -> Vec<String> {
    vec![
        "a rectangle and the 4-vertex axis-parallel polygon with the same corners are the same shape (but a rectangle that comes back as a rectangle keeps its two corner points in the order given); polygons up to rotation/direction of the vertex cycle; paths as exact point list + width".into(),
        "instances compared as a multiset of (cell name, location, reflection, angle in whole degrees with None = 0); instance names are not part of the statement".into(),
        "all shapes of one cell that share a layer number are pairwise bbox-disjoint, so the label of one shape cannot name another - except for one named rectangle inside a named focus rectangle listed before it, where the first label to reach a shape is the one that names it".into(),
        "a label in the corner/cap zone of a path is not judged (the statement fixes only 'inside the shape')".into(),
        "to_gds returning Err for an in-alphabet library is a violation (nothing was yielded)".into(),
    ]
}
fn excluded() -> Vec<String> {
    vec!["polygons that are 4-vertex axis-parallel rectangles (they come back as rectangles, which the canonical form already identifies)".into(), "abstract views, annotations, non-Manhattan paths".into()]
}
fn technique() -> String {
    "bounded-exhaustive enumeration of raw libraries (deviation-bounded choice sequences + dense enumeration of all small-grid polygons) through Library::to_gds and Library::from_gds, judged by exact integer geometry and a neutral library view".into()
}

static SELF_CHECK: std::sync::OnceLock<Result<(), String>> = std::sync::OnceLock::new();
fn self_check() -> Result<(), String> {
    SELF_CHECK
        .get_or_init(|| {
            geom::self_check()?;
            for f in 0..FAMILIES.len() {
                for (name, g) in family(f) {
                    match &g {
                        SGeom::Poly(p) => {
                            if !geom::is_simple(p) || geom::as_rect(p).is_some() {
                                return Err(format!("alphabet polygon '{name}' is not a simple non-rectangle"));
                            }
                        }
                        SGeom::Rect(a, b) => {
                            if a.0 == b.0 && a.1 == b.1 {
                                return Err(format!("alphabet rectangle '{name}' is a single point"));
                            }
                        }
                        SGeom::Path(p, w) => {
                            if p.len() < 2 || *w < 0 || p.windows(2).any(|s| (s[0].0 != s[1].0) == (s[0].1 != s[1].1)) {
                                return Err(format!("alphabet path '{name}' is not Manhattan"));
                            }
                        }
                    }
                }
            }
            // the named U, L and chevron really have their bbox centre outside
            let u = match &family(2)[0].1 {
                SGeom::Poly(p) => p.clone(),
                _ => unreachable!(),
            };
            if geom::in_closed_poly((50, 50), &u) || !geom::in_closed_poly((10, 50), &u) {
                return Err("U-shape facts".into());
            }
            Ok(())
        })
        .clone()
}

// ---------------------------------------------------------------------------------------------------
// part `poly` (dense)
// ---------------------------------------------------------------------------------------------------

pub struct C07Poly;
fn poly_spec(poly: &[P], named: bool) -> Spec {
    Spec {
        name: "polylib".into(),
        units: Units::Nano,
        cells: vec![SCell { name: "p".into(), layout: Some(SLayout { shapes: vec![SShape { layer: 0, purpose: 0, geom: SGeom::Poly(poly.to_vec()), net: if named { Some("n1".into()) } else { None } }], ..Default::default() }), abs: None, view_names: None }],
    }
}
fn poly_key(poly: &[P], named: bool) -> String {
    format!("p:{}:{}", poly.iter().map(|p| format!("{},{}", p.0, p.1)).collect::<Vec<_>>().join(";"), named as u8)
}
fn parse_poly_key(key: &str) -> Option<(Vec<P>, bool)> {
    let rest = key.strip_prefix("p:")?;
    let (pts, named) = rest.rsplit_once(':')?;
    let mut v = vec![];
    for t in pts.split(';') {
        let (x, y) = t.split_once(',')?;
        v.push((x.parse().ok()?, y.parse().ok()?));
    }
    Some((v, named == "1"))
}
impl C07Poly {
    fn one(&self, poly: &[P], named: bool, cx: &mut Cx) {
        let key = poly_key(poly, named);
        if !cx.enter(&key) {
            return;
        }
        cx.stats.executions += 1;
        cx.stats.transitions += poly.len() as u64;
        check_spec(&poly_spec(poly, named), &key, cx);
    }
    fn enumerate(&self, g: i64, len: usize, i0: usize, i1: usize, cx: &mut Cx) {
        let at = |i: usize| -> P { (10 * ((i as i64) % g), 10 * ((i as i64) / g)) };
        let n = (g * g) as usize;
        let mut idx = vec![i0, i1];
        let mut states = 0u64;
        let mut centre_outside = 0u64;
        fn rec(me: &C07Poly, n: usize, len: usize, idx: &mut Vec<usize>, at: &dyn Fn(usize) -> P, cx: &mut Cx, states: &mut u64, co: &mut u64) {
            if idx.len() == len {
                let poly: Vec<P> = idx.iter().map(|i| at(*i)).collect();
                if !geom::is_simple(&poly) || geom::as_rect(&poly).is_some() {
                    return;
                }
                *states += 1;
                let (x0, x1) = (poly.iter().map(|q| q.0).min().unwrap(), poly.iter().map(|q| q.0).max().unwrap());
                let (y0, y1) = (poly.iter().map(|q| q.1).min().unwrap(), poly.iter().map(|q| q.1).max().unwrap());
                if !geom::in_closed_poly(((x0 + x1) / 2, (y0 + y1) / 2), &poly) {
                    *co += 1;
                }
                me.one(&poly, true, cx);
                return;
            }
            for i in 0..n {
                if idx.contains(&i) {
                    continue;
                }
                idx.push(i);
                rec(me, n, len, idx, at, cx, states, co);
                idx.pop();
            }
        }
        rec(self, n, len, &mut idx, &at, cx, &mut states, &mut centre_outside);
        cx.bulk_states(states, centre_outside);
        cx.tag_n("poly:polygons", states);
        cx.tag_n("poly:bbox-centre-outside", centre_outside);
    }
}
impl Driver for C07Poly {
    fn id(&self) -> &'static str {
        "C07"
    }
    fn describe(&self, tier: Tier) -> Describe {
        Describe {
            rule: format!(
                "every sequence of 3..={} distinct vertices on a 4x4 grid scaled x10 that is a simple polygon and not an axis-parallel rectangle (all orientations and start vertices), as the only, named shape of a one-cell library. A state is one vertex sequence (duplicate-free by construction); non-trivial = the bbox centre lies outside the polygon (the exporter's first label candidate fails).",
                tier.pick(5, 6)
            ),
            assumptions: assumptions(),
            excluded: excluded(),
            technique: technique(),
        }
    }
    fn units(&self, tier: Tier) -> Vec<String> {
        let mut v = vec![];
        let mut add = |g: usize, len: usize| {
            for i in 0..g * g {
                for j in 0..g * g {
                    if i != j {
                        v.push(format!("G:{g}:{len}:{i}:{j}"));
                    }
                }
            }
        };
        add(4, 3);
        add(4, 4);
        add(4, 5);
        if tier.is_thorough() {
            add(4, 6);
        }
        v
    }
    fn run_unit(&self, unit: &str, cx: &mut Cx) {
        if let Err(e) = self_check() {
            cx.machinery(format!("C07 self-check failed: {e}"));
            return;
        }
        let p: Vec<&str> = unit.split(':').collect();
        if p.len() != 5 || p[0] != "G" {
            panic!("MACHINERY: C07 bad unit {unit}");
        }
        let (g, len, i, j): (i64, usize, usize, usize) = (p[1].parse().unwrap(), p[2].parse().unwrap(), p[3].parse().unwrap(), p[4].parse().unwrap());
        self.enumerate(g, len, i, j, cx);
    }
    fn run_case(&self, key: &str, cx: &mut Cx) {
        if let Some((poly, named)) = parse_poly_key(key) {
            self.one(&poly, named, cx);
        } else {
            self.run_unit(key, cx);
        }
    }
    fn render_case(&self, _tier: Tier, key: &str) -> Value {
        match parse_poly_key(key) {
            Some((poly, named)) => rawspec::render(&poly_spec(&poly, named)),
            None => json!({"unit": key}),
        }
    }
    fn guards(&self, _tier: Tier, stats: &Stats, _distinct: u64) -> Result<(), String> {
        require_tags(stats, &["poly:polygons", "poly:bbox-centre-outside"])
    }
}

pub fn driver() -> Box<dyn Driver> {
    Box::new(Multi { id: "C07", parts: vec![("lib", Box::new(ByCase(C07Lib))), ("poly", Box::new(C07Poly))] })
}
