//! C11 — the LEF reader never crashes or hangs on any input text.
//!
//! Fault enumeration over base texts: every character-boundary prefix, every single-token fault at every
//! token, non-ASCII insertions at every token, fault pairs on the smallest bases (thorough), and every
//! token sequence of bounded length after each parser context. Oracle: `LefLibrary::open` returns
//! (the sandbox watchdog catches hangs, stack overflows and aborts) without panicking, also while
//! building and formatting the error; every library returned is written without panic and the written
//! text is read again without panic.

use crate::core::*;
use crate::explore::Chooser;
use crate::props::c04::{self, open_text, Opened};
use crate::props::lefgen;
use crate::refmodel::lefrender::{self as lr, Dev, RTok, RK};
use serde_json::{json, Value};
use std::sync::OnceLock;

pub const F_LEXER: &str = "lef_lexer_char_index_used_as_byte_index";

pub struct Base {
    pub name: String,
    pub text: String,
    pub toks: Vec<RTok>,
}

const EXTRA: &[&str] = &[";", "1.5", "5.8", "5.4", "7", "-1", "4294967296", "99999999999999999999", "0", "nm", "\"s\"", "\"\"", "\"\u{e9}\"", "\"\u{e9}]\"", "\"\u{20ac}\"", "\"[\u{1f600}\"", "\"unterminated", "-", ".", "1e9", "-inf", "#c",
    // tokens that begin with a non-ASCII character of Unicode's numeric classes (2- and 3-byte), alone, followed
    // by ASCII digits, and followed by a multi-byte white-space character (U+3000)
    "\u{b2}", "\u{663}7", "\u{2460}", "\u{bd}x", "\u{ff11}\u{3000}x",
    // numbers at and beyond the limits of a 96-bit decimal (28-29 digits, 28 decimals), exponent spellings beyond it
    // names of at most 32 characters but more than 32 bytes (2-, 3-, 4-byte characters), and of 32 characters / 64 bytes
    "\u{e9}\u{e9}\u{e9}\u{e9}\u{e9}\u{e9}\u{e9}\u{e9}\u{e9}\u{e9}\u{e9}\u{e9}\u{e9}\u{e9}\u{e9}\u{e9}\u{e9}",
    "\u{540d}\u{540d}\u{540d}\u{540d}\u{540d}\u{540d}\u{540d}\u{540d}\u{540d}\u{540d}\u{540d}",
    "\u{1f600}\u{1f600}\u{1f600}\u{1f600}\u{1f600}\u{1f600}\u{1f600}\u{1f600}\u{1f600}",
    "\u{e9}\u{e9}\u{e9}\u{e9}\u{e9}\u{e9}\u{e9}\u{e9}\u{e9}\u{e9}\u{e9}\u{e9}\u{e9}\u{e9}\u{e9}\u{e9}\u{e9}\u{e9}\u{e9}\u{e9}\u{e9}\u{e9}\u{e9}\u{e9}\u{e9}\u{e9}\u{e9}\u{e9}\u{e9}\u{e9}\u{e9}\u{e9}",
    // string literals holding a line break after multi-byte characters (closed / unterminated); a lone carriage return
    // glued to a number, to a number followed by U+00A0, and alone
    "\"\u{65e5}\n\"", "\"\u{e9}\u{e9}\n", "\r5.8", "\r0.005\u{a0};", "\r",
    "7922816251426433759354395034", "79228162514264337593543950335", "-79228162514264337593543950335", "0.0000000000000000000000000001", "1e29", "1e400",
    // more decimals than a 96-bit decimal can hold (29, 36), small and with a long mantissa
    "0.00000000000000000000000000001", "-0.000000000000000000000000000000000001", "1.00000000000000000000000000001", ".00000000000000000000000000005",
];

/// Texts with a fault on a line longer than 200 bytes that is full of multi-byte characters (error reports quote
/// the current line): template x filler character (2, 3, 4 bytes) x 0..=3 ASCII pad bytes (every alignment).
const LONG_TEMPLATES: usize = 12;
const LONG_CHARS: [&str; 3] = ["\u{e9}", "\u{540d}", "\u{1f600}"];
fn long_line_text(t: usize, c: usize, pad: usize) -> Option<String> {
    let ch = LONG_CHARS.get(c)?;
    let fill = format!("{}{}", "a".repeat(pad), ch.repeat(100));
    Some(match t {
        0 => format!("BADKEY {fill}\n"),
        1 => format!("VERSION 5.8 ;\nMACRO m\n  SIZE 1 BY ; CLASS CORE ; # {fill}\nEND m\n"),
        2 => format!("VERSION 5.8 ;\nMACRO {fill} BADTOKEN ;\n"),
        3 => format!("VERSION 5.8 ;\nBEGINEXT \"t\" {fill} {fill} w\n"),
        4 => format!("VERSION 5.8 ;\nPROPERTYDEFINITIONS MACRO {fill} BADTYPE ;\n"),
        5 => format!("VERSION 5.8 ;\nDIVIDERCHAR \"{fill}\" ;\n"),
        6 => format!("VERSION 5.8 ;\nMACRO m\n  PIN {fill} DIRECTION SIDEWAYS ; # {fill}\n"),
        // comments whose very first character is multi-byte, with more multi-byte text after them (short texts:
        // `pad` ASCII letters shift the alignment)
        7 => format!("#{ch}\nEND LIBRARY\n"),
        8 => format!("#{ch}{}\n{ch}", "a".repeat(pad)),
        9 => format!("#{ch} c{}\nMACRO {ch}{ch}\nEND {ch}{ch}\nEND LIBRARY\n", "a".repeat(pad)),
        10 => format!("VERSION 5.8 ; #{ch}{}\nDIVIDERCHAR \"{ch}\" ;\nBUSBITCHARS \"{ch}{ch}\" ;\n", "a".repeat(pad)),
        11 => format!("#{ch}\n#{ch}{ch}\nMACRO m # {ch}\n  BADKEY {ch} ;\n"),
        _ => return None,
    })
}
/// 2-, 3-, 4-byte characters, a combining mark, U+00A0 and U+2028; a 2-byte numeric (superscript two), a 3-byte
/// digit (fullwidth one) and the 3-byte white-space character U+3000
const NONASCII: &[&str] = &["é", "€", "😀", "e\u{301}", "\u{a0}", "\u{2028}", "\u{b2}", "\u{ff11}", "\u{3000}", "\u{feff}"];

fn repl() -> &'static Vec<String> {
    static R: OnceLock<Vec<String>> = OnceLock::new();
    R.get_or_init(|| lr::KEYWORDS.iter().chain(EXTRA.iter()).map(|s| s.to_string()).collect())
}

const CONTEXTS: &[(&str, &str)] = &[
    ("library-start", ""),
    ("library", "VERSION 5.8 ;"),
    ("library-5.4", "VERSION 5.4 ;"),
    // a second VERSION statement after version-dependent statements were accepted under the first
    ("version-restated-after-5.4-statements", "VERSION 5.4 ;\nNAMESCASESENSITIVE ON ;\nNOWIREEXTENSIONATPIN ON ;\nVERSION"),
    ("version-restated-after-5.8-statements", "VERSION 5.8 ;\nNOWIREEXTENSIONATPIN ON ;\nVERSION"),
    ("busbitchars", "BUSBITCHARS"),
    ("units", "VERSION 5.8 ;\nUNITS"),
    ("propertydefinitions", "VERSION 5.8 ;\nPROPERTYDEFINITIONS"),
    ("propertydefinition-entry", "VERSION 5.8 ;\nPROPERTYDEFINITIONS MACRO p"),
    ("beginext", "VERSION 5.8 ;\nBEGINEXT \"t\""),
    ("site", "VERSION 5.8 ;\nSITE s"),
    ("via", "VERSION 5.8 ;\nVIA v"),
    ("via-generated", "VERSION 5.8 ;\nVIA v VIARULE r ;"),
    ("via-layer", "VERSION 5.8 ;\nVIA v LAYER m ;"),
    ("macro", "VERSION 5.8 ;\nMACRO m"),
    ("macro-class", "VERSION 5.8 ;\nMACRO m CLASS"),
    ("macro-foreign", "VERSION 5.8 ;\nMACRO m FOREIGN f"),
    ("macro-property", "VERSION 5.8 ;\nMACRO m PROPERTY"),
    ("pin", "VERSION 5.8 ;\nMACRO m PIN p"),
    ("port", "VERSION 5.8 ;\nMACRO m PIN p PORT"),
    ("layer-header", "VERSION 5.8 ;\nMACRO m PIN p PORT LAYER l"),
    ("layer-body", "VERSION 5.8 ;\nMACRO m PIN p PORT LAYER l ;"),
    ("rect", "VERSION 5.8 ;\nMACRO m PIN p PORT LAYER l ; RECT"),
    ("polygon-mask", "VERSION 5.8 ;\nMACRO m PIN p PORT LAYER l ; POLYGON MASK 1"),
    ("obs", "VERSION 5.8 ;\nMACRO m OBS"),
    ("density", "VERSION 5.8 ;\nMACRO m DENSITY"),
    ("density-layer", "VERSION 5.8 ;\nMACRO m DENSITY LAYER l ;"),
    // blocks closed while still empty, inside a macro / pin named like the name token of the alphabet (`nm`), so that
    // `END nm` completes them and the library is accepted and written
    ("empty-density", "VERSION 5.8 ;\nMACRO nm DENSITY END"),
    ("empty-obs", "VERSION 5.8 ;\nMACRO nm OBS END"),
    ("empty-port", "VERSION 5.8 ;\nMACRO nm PIN nm PORT END"),
    ("empty-pin", "VERSION 5.8 ;\nMACRO nm PIN nm"),
    ("empty-propertydefinitions", "VERSION 5.8 ;\nPROPERTYDEFINITIONS END PROPERTYDEFINITIONS"),
    ("empty-units", "VERSION 5.8 ;\nUNITS END UNITS"),
    ("empty-site", "VERSION 5.8 ;\nSITE nm"),
    ("empty-via", "VERSION 5.8 ;\nVIA nm"),
    ("empty-statements", "VERSION 5.8 ;\nMACRO nm SYMMETRY ; FOREIGN nm ; SITE nm ; CLASS CORE ;"),
];

fn raw_strings(src: &str) -> Vec<String> {
    let mut out = vec![];
    let mut rest = src;
    while let Some(i) = rest.find("r#\"") {
        let after = &rest[i + 3..];
        match after.find("\"#") {
            Some(j) => {
                out.push(after[..j].to_string());
                rest = &after[j + 2..];
            }
            None => break,
        }
    }
    out
}

/// The prefix that selects alternative `alt` at the choice point labelled `label` of focus `focus`.
fn prefix_with(focus: usize, label: &str, alt: u32) -> Vec<u32> {
    let mut ch = Chooser::new(&[focus as u32]);
    let _ = lefgen::gen_library(&mut ch);
    let i = ch.trace.iter().position(|p| p.label == label).unwrap_or_else(|| panic!("MACHINERY: no choice point {label}"));
    let mut p: Vec<u32> = ch.trace[..i].iter().map(|x| x.chosen).collect();
    p.push(alt);
    p
}

fn load_bases() -> Result<Vec<Base>, String> {
    let mut v: Vec<(String, String)> = vec![];
    // rendered libraries, one per construct
    let mut add_gen = |name: String, prefix: Vec<u32>, devs: Vec<Dev>| {
        let mut ch = Chooser::new(&prefix);
        let (_, lib) = lefgen::gen_library(&mut ch);
        v.push((name, lr::render(&lib, &devs).text));
    };
    for (f, name) in lefgen::FOCI.iter().enumerate() {
        add_gen(format!("generated:{name}"), vec![f as u32], vec![]);
    }
    let fi = |n: &str| lefgen::FOCI.iter().position(|x| *x == n).unwrap();
    for k in 1..6u32 {
        add_gen(format!("generated:minimal-{k}"), vec![fi("minimal") as u32, k], vec![]);
    }
    add_gen("generated:header-5.4".into(), vec![fi("header") as u32, 4], vec![]);
    add_gen("generated:header-noversion".into(), vec![fi("header") as u32, 6], vec![]);
    add_gen("generated:macro_attrs-5.4".into(), vec![fi("macro_attrs") as u32, 1], vec![]);
    add_gen("generated:geoms-all-nine".into(), prefix_with(fi("geoms"), "geoms.select", 12), vec![]);
    add_gen("generated:multi-5.3-mixedcase".into(), vec![fi("multi") as u32, 1], vec![Dev::AllCase(2)]);
    add_gen("generated:pin_attrs-noendlibrary".into(), vec![fi("pin_attrs") as u32], vec![Dev::NoEndLibrary]);
    add_gen(
        "generated:ports-with-comments".into(),
        vec![fi("ports") as u32],
        vec![
            Dev::Gap { at: 0, alt: 2 },
            Dev::Gap { at: 3, alt: 4 },
            Dev::Gap { at: 9, alt: 5 },
            Dev::Gap { at: 17, alt: 7 },
            Dev::Gap { at: 30, alt: 4 },
            Dev::Gap { at: 41, alt: 3 },
        ],
    );
    add_gen("generated:property-joined".into(), vec![fi("property") as u32], vec![Dev::JoinProps]);
    // texts embedded in the repository tests, and resource files
    let root = format!("{}/.repo", crate::sandbox::verif_root());
    for f in ["lef21/src/tests.rs", "lef21/src/read.rs"] {
        let src = std::fs::read_to_string(format!("{root}/{f}")).map_err(|e| format!("cannot read {root}/{f}: {e}"))?;
        for (i, s) in raw_strings(&src).into_iter().enumerate() {
            v.push((format!("{f}#{i}"), s));
        }
    }
    for f in ["layout21converters/resources/macro.lef", "lef21/resources/lib1.yaml", "lef21/resources/lib2.yaml", "lef21/resources/empty"] {
        let s = std::fs::read_to_string(format!("{root}/{f}")).map_err(|e| format!("cannot read {root}/{f}: {e}"))?;
        v.push((f.to_string(), s));
    }
    if v.len() < 40 {
        return Err(format!("only {} base texts", v.len()));
    }
    Ok(v
        .into_iter()
        .filter(|(_, t)| t.len() <= 8000)
        .map(|(name, text)| {
            let toks = lr::tokenize(&text);
            Base { name, text, toks }
        })
        .collect())
}

fn bases() -> &'static Vec<Base> {
    static B: OnceLock<Vec<Base>> = OnceLock::new();
    B.get_or_init(|| load_bases().unwrap_or_else(|e| panic!("MACHINERY: C11 base texts: {e}")))
}

fn splice(text: &str, start: usize, end: usize, with: &str) -> String {
    let mut s = String::with_capacity(text.len() + with.len());
    s.push_str(&text[..start]);
    s.push_str(with);
    s.push_str(&text[end..]);
    s
}

/// ops of a single-token fault: "del", "dup", "swap", "r<k>"
fn apply_op(b: &Base, i: usize, op: &str) -> Option<String> {
    let t = b.toks.get(i)?;
    let tt = &b.text[t.start..t.end];
    Some(match op {
        "del" => splice(&b.text, t.start, t.end, ""),
        "dup" => splice(&b.text, t.start, t.end, &format!("{tt} {tt}")),
        "swap" => {
            let n = b.toks.get(i + 1)?;
            let nt = &b.text[n.start..n.end];
            let mid = &b.text[t.end..n.start];
            splice(&b.text, t.start, n.end, &format!("{nt}{mid}{tt}"))
        }
        _ => {
            let k: usize = op.strip_prefix('r')?.parse().ok()?;
            splice(&b.text, t.start, t.end, repl().get(k)?)
        }
    })
}

fn ops_full() -> Vec<String> {
    let mut v = vec!["del".to_string(), "dup".into(), "swap".into()];
    for k in 0..repl().len() {
        v.push(format!("r{k}"));
    }
    v
}
/// reduced operation set for fault pairs
fn ops_small() -> Vec<String> {
    let r = repl();
    let idx = |s: &str| r.iter().position(|x| x == s).unwrap();
    let mut v = vec!["del".to_string(), "dup".into(), "swap".into()];
    for s in [
        "END", "LAYER", "MACRO", "PIN", "PORT", "OBS", "RECT", "POLYGON", "VIA", "UNITS", "SITE", "PROPERTY", "BEGINEXT",
        "ENDEXT", "LIBRARY", "ITERATE", "DO", "MASK", ";", "1.5", "nm", "\"s\"", "\"unterminated", "#c", "-inf",
    ] {
        v.push(format!("r{}", idx(s)));
    }
    v
}

const UNI_WHERE: usize = 5;
fn apply_uni(b: &Base, i: usize, w: usize, c: usize) -> Option<String> {
    let t = b.toks.get(i)?;
    let ch = NONASCII.get(c)?;
    Some(match w {
        // inside the token (name, number, keyword, string literal or comment), after its first character
        0 => {
            let first = b.text[t.start..].chars().next()?.len_utf8();
            splice(&b.text, t.start + first, t.start + first, ch)
        }
        // a token of its own before this one
        1 => splice(&b.text, t.start, t.start, &format!("{ch} ")),
        // glued to the front / to the end of the token
        2 => splice(&b.text, t.start, t.start, ch),
        3 => splice(&b.text, t.end, t.end, ch),
        // in a comment before the token
        4 => splice(&b.text, t.start, t.start, &format!("# {ch}{ch}\n")),
        _ => return None,
    })
}

/// Build the text of a case from its key. None = not a case key.
pub fn text_of(key: &str) -> Option<String> {
    let p: Vec<&str> = key.split(':').collect();
    let bs = bases();
    match p.as_slice() {
        ["p", b, n] => {
            let b = bs.get(b.parse::<usize>().ok()?)?;
            let n: usize = n.parse().ok()?;
            let end = b.text.char_indices().map(|(i, _)| i).chain(std::iter::once(b.text.len())).nth(n)?;
            Some(b.text[..end].to_string())
        }
        ["t", b, i, op] => apply_op(bs.get(b.parse::<usize>().ok()?)?, i.parse().ok()?, op),
        ["u", b, i, w, c] => apply_uni(bs.get(b.parse::<usize>().ok()?)?, i.parse().ok()?, w.parse().ok()?, c.parse().ok()?),
        ["d", b, i, op, j, op2] => {
            // the later token first, so that the spans of the earlier one stay valid
            let b = bs.get(b.parse::<usize>().ok()?)?;
            let (i, j): (usize, usize) = (i.parse().ok()?, j.parse().ok()?);
            if j <= i + 1 {
                return None;
            }
            let t1 = apply_op(b, j, op2)?;
            let b2 = Base { name: String::new(), toks: b.toks[..j].to_vec(), text: t1 };
            apply_op(&b2, i, op)
        }
        ["x", c, seq] => {
            let (_, ctx) = CONTEXTS.get(c.parse::<usize>().ok()?)?;
            let mut s = String::from(*ctx);
            for k in seq.split('.') {
                s.push(' ');
                s.push_str(repl().get(k.parse::<usize>().ok()?)?);
            }
            s.push('\n');
            Some(s)
        }
        ["l", t, c, pad] => long_line_text(t.parse().ok()?, c.parse().ok()?, pad.parse().ok()?),
        // as "x", the text ending with the last character of the last token (no final new-line)
        ["y", c, seq] => {
            let mut s = text_of(&format!("x:{c}:{seq}"))?;
            s.pop();
            Some(s)
        }
        _ => None,
    }
}

/// `image_of_reader`: the same text space judged as C05's second part - every text the reader accepts yields a
/// library that must be written without error and read back equal (panics are left to C11 itself).
pub struct C11 {
    pub image_of_reader: bool,
}

thread_local! {
    static SEEN_LIBS: std::cell::RefCell<std::collections::HashSet<u64>> = std::cell::RefCell::new(std::collections::HashSet::new());
}

impl C11 {
    /// C05 over the image of the reader on this text space
    fn check_image(&self, key: &str, text: &str, hashed: bool, cx: &mut Cx) {
        cx.stats.executions += 1;
        cx.stats.transitions += 1;
        match open_text(cx, text, "in.lef") {
            Opened::Panic(_) => cx.outcome("open-panic (C11's subject)"),
            Opened::Err(..) => cx.outcome("err"),
            Opened::Ok(lib) => {
                let h = hash_bytes(format!("{lib:?}").as_bytes());
                if hashed {
                    cx.state(h, !lib.macros.is_empty() || !lib.sites.is_empty() || !lib.vias.is_empty());
                }
                if !SEEN_LIBS.with(|s| s.borrow_mut().insert(h)) {
                    cx.outcome("ok/library-already-judged");
                    return;
                }
                cx.stats.evaluations += 1;
                match super::c05::round_trip_pub(&lib, cx) {
                    Ok(()) => cx.outcome("ok/reopen-ok"),
                    Err((sig, what, written)) => {
                        cx.outcome(&format!("ok/{sig}"));
                        let f = super::c05::attribute_pub(&lib, cx);
                        cx.fail(
                            key,
                            &format!("image-{sig}"),
                            f,
                            || format!("{sig} for the library read from a faulted text: {what}"),
                            || json!({"text": text, "library": truncate(&format!("{lib:?}"), 3000), "what": what, "written_text": written}),
                        );
                    }
                }
            }
        }
    }

    fn panic_finding(&self, text: &str, route: u8, cx: &mut Cx) -> Option<&'static str> {
        // the recorded class: a multi-byte character in the text and a panic; named only if the same text
        // with every multi-byte character replaced by one ASCII character does not panic on the same route
        if text.is_ascii() {
            return None;
        }
        let t = c04::ascii_subst(text);
        cx.stats.evaluations += 1;
        match (route, open_text(cx, &t, "retest.lef")) {
            (_, Opened::Panic(_)) => None,
            _ => Some(F_LEXER),
        }
    }

    fn check_text(&self, key: &str, text: &str, hashed: bool, cx: &mut Cx) {
        if self.image_of_reader {
            return self.check_image(key, text, hashed, cx);
        }
        cx.stats.executions += 1;
        cx.stats.transitions += 1;
        if hashed {
            cx.state(hash_bytes(text.as_bytes()), !text.trim().is_empty());
        }
        if cx.wants_sample() && key.len() % 3 == 0 {
            cx.sample(|| json!({"key": key, "text": text}));
        }
        match open_text(cx, text, "in.lef") {
            Opened::Panic(p) => {
                let f = self.panic_finding(text, 0, cx);
                cx.outcome(if f.is_some() { "open-panic[known]" } else { "open-panic" });
                cx.fail(key, "open-panic", f, || format!("LefLibrary::open {}", p.short()), || json!({"text": text}));
            }
            Opened::Err(..) => cx.outcome("err"),
            Opened::Ok(lib) => {
                match guard(|| lib.to_string().map_err(|e| format!("{e}"))) {
                    Err(p) => {
                        cx.outcome("ok/write-panic");
                        cx.fail(key, "write-panic", None, || format!("to_string of the library read {}", p.short()), || json!({"text": text}));
                    }
                    Ok(Err(_)) => cx.outcome("ok/write-err"),
                    Ok(Ok(t2)) => match open_text(cx, &t2, "reopen.lef") {
                        Opened::Panic(p) => {
                            let f = self.panic_finding(&t2, 1, cx);
                            cx.outcome(if f.is_some() { "ok/reopen-panic[known]" } else { "ok/reopen-panic" });
                            cx.fail(
                                key,
                                "reopen-panic",
                                f,
                                || format!("re-reading the written text {}", p.short()),
                                || json!({"text": text, "written": t2}),
                            );
                        }
                        Opened::Err(..) => cx.outcome("ok/reopen-err"),
                        Opened::Ok(_) => cx.outcome("ok/reopen-ok"),
                    },
                }
            }
        }
    }

    fn run_key(&self, key: &str, hashed: bool, cx: &mut Cx) {
        if !cx.enter(key) {
            return;
        }
        match text_of(key) {
            Some(t) => self.check_text(key, &t, hashed, cx),
            None => {}
        }
    }
}

const CHUNK: usize = 6;

impl Driver for C11 {
    fn id(&self) -> &'static str {
        if self.image_of_reader {
            "C05"
        } else {
            "C11"
        }
    }
    fn describe(&self, tier: Tier) -> Describe {
        if self.image_of_reader {
            let mut d = C11 { image_of_reader: false }.describe(tier);
            d.rule = format!("the image of the reader beyond generated texts: every text of C11's fault space is read; every *distinct library* the reader returns (distinct by its Debug rendering) must be written by to_string without error and read back equal. The text space: {}", d.rule);
            d.assumptions = vec!["panics and hangs on these texts are C11's subject and only counted here".into()];
            d.excluded = vec![];
            d.technique = "exhaustive single-fault enumeration over token and character positions of base texts + bounded-depth token sequences per parser context; every accepted text's library written and re-read by the real writer and reader".into();
            return d;
        }
        let bs = bases();
        let ntok: usize = bs.iter().map(|b| b.toks.len()).sum();
        let nchar: usize = bs.iter().map(|b| b.text.chars().count()).sum();
        Describe {
            rule: format!(
                "{} base texts ({} tokens, {} characters): the default rendering of every generator focus plus variants (versions, no END LIBRARY, mixed case, joined properties, all nine geometries), every raw string literal of lef21/src/tests.rs and read.rs, macro.lef, lib1.yaml, lib2.yaml, the empty file. Faults: every character-boundary prefix; at every token (comments and string literals included): deleted, duplicated, swapped with the next, replaced by each of {} tokens ({} keywords / enumeration words, ';', numbers, a name, a string literal, the empty string literal, an unterminated string, '-', '.', 1e9, -inf, a comment, five tokens starting with a non-ASCII numeric character, six numbers at and beyond the limits of a 96-bit decimal, four numbers with 29 / 36 decimals); 7 faulty texts whose faulty line is longer than 200 bytes and filled with 2- / 3- / 4-byte characters at every byte alignment; {} non-ASCII strings (2-, 3-, 4-byte, combining, U+00A0, U+2028, superscript two, fullwidth one, U+3000, the byte-order mark U+FEFF) inserted inside the token, as a token of its own, glued before / after it and in a comment before it{}; after each of {} parser contexts every token sequence of length <= {} over the same {} tokens, ending with a new-line and (length <= 2) ending with the last token's last character. distinct = distinct text (sequences are distinct by construction); non-trivial = non-blank text.",
                bs.len(), ntok, nchar, repl().len(), lr::KEYWORDS.len(), NONASCII.len(),
                format!("; on the {} smallest bases with at least 8 tokens every pair of faults (reduced operation set: delete, duplicate, swap, 25 replacements) at two non-adjacent tokens", tier.pick(6, 16)),
                CONTEXTS.len(), tier.pick(2, 3), repl().len()
            ),
            assumptions: vec![
                "a hang, stack overflow or abort is detected by the sandbox (watchdog + resource limits) and blamed on the announced case".into(),
                "Err from to_string or from re-reading a written library is not judged here (C05)".into(),
            ],
            excluded: vec![
                "time proportional to the input length is covered only as: terminates under the watchdog on every explored input (no instruction-count measurement; inputs are at most 8 kB)".into(),
                "texts that are not valid UTF-8 (open returns an I/O error before the lexer runs)".into(),
            ],
            technique: "exhaustive single-fault (thorough: double-fault) enumeration over token and character positions of base texts + bounded-depth exhaustive token sequences per parser context, executed on the real reader and writer in sandboxed processes".into(),
        }
    }
    fn units(&self, tier: Tier) -> Vec<String> {
        let bs = bases();
        let mut v = vec![];
        for (b, base) in bs.iter().enumerate() {
            v.push(format!("P:{b}"));
            let mut lo = 0;
            while lo < base.toks.len() {
                let hi = (lo + CHUNK).min(base.toks.len());
                v.push(format!("T:{b}:{lo}:{hi}"));
                lo = hi;
            }
            v.push(format!("U:{b}"));
        }
        v.push("L".into());
        for c in 0..CONTEXTS.len() {
            for a in 0..repl().len() {
                v.push(format!("X:{c}:{a}"));
            }
        }
        {
            let mut small: Vec<usize> = (0..bs.len()).filter(|&b| bs[b].toks.len() >= 8).collect();
            small.sort_by_key(|&b| (bs[b].toks.len(), b));
            for &b in small.iter().take(tier.pick(6, 16)) {
                for i in 0..bs[b].toks.len() {
                    v.push(format!("D:{b}:{i}"));
                }
            }
        }
        v
    }
    fn run_unit(&self, unit: &str, cx: &mut Cx) {
        if !c04::self_check_once(cx) {
            return;
        }
        let bs = bases();
        let p: Vec<&str> = unit.split(':').collect();
        let num = |s: &str| s.parse::<usize>().expect("MACHINERY: bad C11 unit");
        match p.as_slice() {
            ["P", b] => {
                let b = num(b);
                let n = bs[b].text.chars().count();
                for k in 0..=n {
                    self.run_key(&format!("p:{b}:{k}"), true, cx);
                    if k % 64 == 0 && cx.expired() {
                        cx.cap("time");
                        break;
                    }
                }
                cx.tag("fault:prefix");
            }
            ["T", b, lo, hi] => {
                let b = num(b);
                let ops = ops_full();
                for i in num(lo)..num(hi) {
                    if cx.expired() {
                        cx.cap("time");
                        break;
                    }
                    for op in &ops {
                        self.run_key(&format!("t:{b}:{i}:{op}"), true, cx);
                    }
                    cx.tag(match bs[b].toks[i].k {
                        RK::Word => "token:word",
                        RK::Str => "token:string",
                        RK::UnterminatedStr => "token:unterminated-string",
                        RK::Semi => "token:semicolon",
                        RK::Comment => "token:comment",
                    });
                }
                cx.tag("fault:token");
            }
            ["L"] => {
                for t in 0..LONG_TEMPLATES {
                    for c in 0..LONG_CHARS.len() {
                        for pad in 0..4 {
                            self.run_key(&format!("l:{t}:{c}:{pad}"), true, cx);
                        }
                    }
                }
                cx.tag("fault:long-non-ascii-line");
            }
            ["U", b] => {
                let b = num(b);
                for i in 0..bs[b].toks.len() {
                    if cx.expired() {
                        cx.cap("time");
                        break;
                    }
                    for w in 0..UNI_WHERE {
                        for c in 0..NONASCII.len() {
                            self.run_key(&format!("u:{b}:{i}:{w}:{c}"), true, cx);
                        }
                    }
                    match bs[b].toks[i].k {
                        RK::Str => cx.tag("nonascii:in-string"),
                        RK::Comment => cx.tag("nonascii:in-comment"),
                        RK::Word => cx.tag("nonascii:in-word"),
                        _ => {}
                    }
                }
                cx.tag("fault:nonascii");
            }
            ["X", c, a] => {
                let n = repl().len();
                let depth = cx.tier.pick(2, 3);
                let mut count = 0u64;
                self.run_key(&format!("x:{c}:{a}"), false, cx);
                self.run_key(&format!("y:{c}:{a}"), false, cx);
                count += 2;
                for b in 0..n {
                    self.run_key(&format!("x:{c}:{a}.{b}"), false, cx);
                    self.run_key(&format!("y:{c}:{a}.{b}"), false, cx);
                    count += 2;
                    if depth >= 3 {
                        for d in 0..n {
                            self.run_key(&format!("x:{c}:{a}.{b}.{d}"), false, cx);
                            count += 1;
                        }
                    }
                    if cx.expired() {
                        cx.cap("time");
                        break;
                    }
                }
                cx.bulk_states(count, count);
                cx.tag("fault:sequence");
            }
            ["D", b, i] => {
                let (b, i) = (num(b), num(i));
                let ops = ops_small();
                for op in &ops {
                    for j in (i + 2)..bs[b].toks.len() {
                        for op2 in &ops {
                            self.run_key(&format!("d:{b}:{i}:{op}:{j}:{op2}"), true, cx);
                        }
                    }
                    if cx.expired() {
                        cx.cap("time");
                        break;
                    }
                }
                cx.tag("fault:pair");
            }
            _ => panic!("MACHINERY: C11 bad unit {unit}"),
        }
    }
    fn run_case(&self, key: &str, cx: &mut Cx) {
        if !c04::self_check_once(cx) {
            return;
        }
        match text_of(key) {
            Some(t) => {
                cx.enter(key);
                self.check_text(key, &t, true, cx)
            }
            None => self.run_unit(key, cx),
        }
    }
    fn render_case(&self, _tier: Tier, key: &str) -> Value {
        let base = key.split(':').nth(1).and_then(|b| b.parse::<usize>().ok()).filter(|_| !key.starts_with("x:") && !key.starts_with("y:") && !key.starts_with("l:"));
        json!({
            "key": key,
            "base": base.and_then(|b| bases().get(b)).map(|b| b.name.clone()),
            "text": text_of(key),
        })
    }
    fn guards(&self, tier: Tier, stats: &Stats, _distinct: u64) -> Result<(), String> {
        if self.image_of_reader {
            require_tags(stats, &["fault:prefix", "fault:token", "fault:nonascii", "fault:sequence"])?;
            return require_outcomes(stats, &["err", "ok/reopen-ok"]);
        }
        let mut tags = vec![
            "fault:prefix", "fault:token", "fault:nonascii", "fault:sequence", "fault:long-non-ascii-line", "token:word", "token:string", "token:semicolon",
            "token:comment", "nonascii:in-string", "nonascii:in-comment", "nonascii:in-word",
        ];
        tags.push("fault:pair");
        let _ = tier;
        require_tags(stats, &tags)?;
        require_outcomes(stats, &["err", "ok/reopen-ok"])
    }
}

pub fn driver() -> Box<dyn Driver> {
    Box::new(Multi { id: "C11", parts: vec![("faults", Box::new(C11 { image_of_reader: false })), ("linear", Box::new(super::c11lin::C11Lin))] })
}
