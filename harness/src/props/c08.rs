//! C08 — compiled gridded layouts realise exactly their tracks, cuts, vias and nets.
//!
//! Parts (`Multi`):
//!   convert  : family of stacks x cells (metals, outline in periods) x cuts / assignments / instances from
//!              the menus of all in-range crossings / grid positions, deviation bounded; the real
//!              `RawExporter::convert` output compared as a multiset with the reference tiling model
//!              (`refmodel::tiling`)
//!   trackops : every sequence of <= 3 (thorough 4) cut / block / set_net calls on a real `tracks::Track`
//!              against an interval-list model, plus the tiling invariants after every call

use crate::core::*;
use crate::explore::Chooser;
use crate::refmodel::tiling::{self as tm, CellIn, ChildD, CrossD, Elem, InstIn, Kind, LayerId, Mode, RefOut, SpecD, StackD, STATEMENT};
use serde_json::{json, Value};
use std::sync::OnceLock;

use layout21tetris as tetris;
use tetris::cell::Cell;
use tetris::conv::raw::RawExporter;
use tetris::coords::{DbUnits, Xy};
use tetris::instance::Instance;
use tetris::layout::Layout;
use tetris::library::Library;
use tetris::outline::Outline;
use tetris::placement::Place;
use tetris::raw::{self, Dir};
use tetris::stack::{Assign, FlipMode, MetalLayer, PrimitiveLayer, PrimitiveMode, Stack, ViaLayer, ViaTarget};
use tetris::tracks::{RailKind, Track, TrackCross, TrackData, TrackEntry, TrackRef, TrackSegment, TrackSegmentType, TrackSpec, TrackType};
use tetris::utils::Ptr;
use tetris::validate::ValidStack;

fn self_check() -> &'static Result<(), String> {
    static R: OnceLock<Result<(), String>> = OnceLock::new();
    R.get_or_init(|| {
        tm::self_check()?;
        trackops_self_check()
    })
}
fn family() -> &'static Vec<StackD> {
    static F: OnceLock<Vec<StackD>> = OnceLock::new();
    F.get_or_init(tm::stack_family)
}

// ---------------------------------------------------------------------------------------------
// Known defect classes (predicates over the input; the failure mode is checked against the model run in
// the corresponding defect reading)
// ---------------------------------------------------------------------------------------------

pub const F_FLIP: &str = "tetris_flip_asymmetric_odd_period";
pub const F_REFL: &str = "tetris_instance_reflected_along_track";
pub const F_EDGE: &str = "tetris_cut_reaching_below_outline_origin";

#[derive(Clone, Debug)]
pub struct CaseD {
    pub stack: usize,
    pub cell: CellIn,
    pub children: Vec<ChildD>,
}

/// some cut / assignment names a track in an odd period of a flipping layer whose flipped position differs
fn pred_flip(sd: &StackD, cell: &CellIn) -> bool {
    let hit = |l: usize, t: usize| {
        sd.layers.get(l).map(|ly| ly.flip && t < ly.nsig() * 64 && (t / ly.nsig()) % 2 == 1 && ly.center(t, true) != ly.center(t, false)).unwrap_or(false)
    };
    cell.cuts.iter().any(|c| hit(c.2, c.3)) || cell.assigns.iter().any(|(_, a)| hit(a.0, a.1) || hit(a.2, a.3))
}
/// some instance is reflected along the track direction of a layer it reaches (inside the cell's metals)
fn pred_refl(sd: &StackD, cell: &CellIn, children: &[ChildD]) -> bool {
    cell.insts.iter().any(|i| (0..cell.metals.min(children[i.child].metals)).any(|l| if sd.layers[l].horiz { i.rh } else { i.rv }))
}
/// some cut span starts below coordinate 0 (its crossing track is centred within half a cut size of the origin)
fn pred_edge(sd: &StackD, cell: &CellIn, flip_aware: bool) -> bool {
    cell.cuts.iter().any(|c| match (sd.layers.get(c.0), sd.layers.get(c.2)) {
        (Some(l), Some(x)) => x.center(c.3, flip_aware) - l.cutsize / 2 < 0,
        _ => false,
    })
}

// ---------------------------------------------------------------------------------------------
// Real side
// ---------------------------------------------------------------------------------------------

pub struct BuiltStack {
    pub stack: ValidStack,
    pub metal_keys: Vec<raw::LayerKey>,
    pub via_keys: Vec<raw::LayerKey>,
}

fn db(v: i64) -> DbUnits {
    DbUnits(v as isize)
}
fn entry(e: &tm::EntryD) -> TrackEntry {
    TrackEntry {
        width: db(e.w),
        ttype: match e.kind {
            Kind::Gap => TrackType::Gap,
            Kind::Sig => TrackType::Signal,
            Kind::Pwr => TrackType::Rail(RailKind::Pwr),
            Kind::Gnd => TrackType::Rail(RailKind::Gnd),
        },
    }
}

pub fn build_stack(sd: &StackD) -> Result<BuiltStack, String> {
    let mut rawlayers = raw::Layers::default();
    let er = |e: raw::LayoutError| format!("setup: {e:?}");
    let boundary_layer = Some(rawlayers.add(raw::Layer::from_pairs(99, &[(0, raw::LayerPurpose::Outline)]).map_err(er)?));
    let mut metal_keys = vec![];
    let mut via_keys = vec![];
    let mut metals = vec![];
    for (i, l) in sd.layers.iter().enumerate() {
        let key = rawlayers.add(raw::Layer::from_pairs(10 + i as i16, &[(0, raw::LayerPurpose::Drawing), (1, raw::LayerPurpose::Label), (2, raw::LayerPurpose::Pin), (3, raw::LayerPurpose::Obstruction)]).map_err(er)?);
        metal_keys.push(key);
        let entries: Vec<TrackSpec> = l
            .spec
            .iter()
            .map(|s| match s {
                SpecD::E(e) => TrackSpec::Entry(entry(e)),
                SpecD::Rep(es, n) => TrackSpec::repeat(es.iter().map(entry).collect::<Vec<_>>(), *n),
            })
            .collect();
        metals.push(MetalLayer {
            name: format!("met{i}"),
            dir: if l.horiz { Dir::Horiz } else { Dir::Vert },
            cutsize: db(l.cutsize),
            entries,
            offset: db(l.offset),
            overlap: db(l.overlap),
            flip: if l.flip { FlipMode::EveryOther } else { FlipMode::None },
            prim: if i == 0 { PrimitiveMode::Split } else { PrimitiveMode::Stack },
            raw: Some(key),
        });
    }
    let mut vias = vec![];
    // like the repository's sample stack, every stack lists a contact layer from the primitive layer up to metal 0
    // ahead of its metal-to-metal via layers; nothing is ever drawn on it
    {
        let key = rawlayers.add(raw::Layer::from_pairs(49, &[(0, raw::LayerPurpose::Drawing)]).map_err(er)?);
        vias.push(ViaLayer { name: "contact".into(), top: ViaTarget::Metal(0), bot: ViaTarget::Primitive, size: Xy::new(db(10), db(10)), raw: Some(key) });
    }
    for (i, v) in sd.vias.iter().enumerate() {
        let key = rawlayers.add(raw::Layer::from_pairs(50 + i as i16, &[(0, raw::LayerPurpose::Drawing)]).map_err(er)?);
        via_keys.push(key);
        vias.push(ViaLayer { name: format!("via{i}"), top: ViaTarget::Metal(i + 1), bot: ViaTarget::Metal(i), size: Xy::new(db(v.0), db(v.1)), raw: Some(key) });
    }
    let stack = Stack { units: raw::Units::Nano, prim: PrimitiveLayer::new(Xy::new(db(sd.prim.0), db(sd.prim.1))), metals, vias, rawlayers: Some(Ptr::new(rawlayers)), boundary_layer };
    let stack = stack.validate().map_err(|e| format!("setup: stack rejected: {e:?}"))?;
    Ok(BuiltStack { stack, metal_keys, via_keys })
}

fn tcross(c: &CrossD) -> TrackCross {
    TrackCross::new(TrackRef::new(c.0, c.1), TrackRef::new(c.2, c.3))
}

/// One observed cell: its name and elements (None for a non-rectangle shape).
pub type ObsCell = (String, Vec<Elem>, usize);

/// Build library + stack, run the conversion, read the elements back. Call under `guard`.
pub fn run_convert(sd: &StackD, case: &CaseD) -> Result<Result<Vec<ObsCell>, String>, String> {
    let bs = build_stack(sd)?;
    let mut lib = Library::new("c08");
    let mut child_ptrs: Vec<Ptr<Cell>> = vec![];
    for (i, ch) in case.children.iter().enumerate() {
        let o = Outline::rect(ch.size.0 as isize, ch.size.1 as isize).map_err(|e| format!("setup: {e:?}"))?;
        child_ptrs.push(lib.cells.add(Layout::new(format!("child{i}"), ch.metals, o)));
    }
    let c = &case.cell;
    let o = Outline::rect(c.size.0 as isize, c.size.1 as isize).map_err(|e| format!("setup: {e:?}"))?;
    let mut top = Layout::new("top", c.metals, o);
    for (i, inst) in c.insts.iter().enumerate() {
        top.instances.add(Instance {
            inst_name: format!("inst{i}"),
            cell: child_ptrs[inst.child].clone(),
            loc: Place::Abs(Xy::from((inst.loc.0 as isize, inst.loc.1 as isize))),
            reflect_horiz: inst.rh,
            reflect_vert: inst.rv,
        });
    }
    for x in &c.cuts {
        top.cuts.push(tcross(x));
    }
    for (net, x) in &c.assigns {
        top.assignments.push(Assign::new(net.clone(), tcross(x)));
    }
    lib.cells.add(top);
    let (mk, vk) = (bs.metal_keys.clone(), bs.via_keys.clone());

    let rawlib = match RawExporter::convert(lib, bs.stack) {
        Err(e) => return Ok(Err(format!("{e:?}"))),
        Ok(p) => p,
    };

    let rl = rawlib.read().map_err(|_| "readback: lock".to_string())?;
    let mut out = vec![];
    for cp in rl.cells.iter() {
        let cell = cp.read().map_err(|_| "readback: lock".to_string())?;
        let Some(lay) = &cell.layout else {
            out.push((cell.name.clone(), vec![], 0));
            continue;
        };
        let mut elems = vec![];
        let mut odd = 0usize;
        for e in &lay.elems {
            let layer = if let Some(i) = mk.iter().position(|k| *k == e.layer) {
                LayerId::Metal(i)
            } else if let Some(i) = vk.iter().position(|k| *k == e.layer) {
                LayerId::Via(i)
            } else {
                LayerId::Other
            };
            match &e.inner {
                raw::Shape::Rect(r) => elems.push(Elem { layer, x0: r.p0.x as i64, y0: r.p0.y as i64, x1: r.p1.x as i64, y1: r.p1.y as i64, net: e.net.clone() }),
                _ => odd += 1,
            }
        }
        out.push((cell.name.clone(), elems, odd));
    }
    Ok(Ok(out))
}

// ---------------------------------------------------------------------------------------------
// Part 1: conversions
// ---------------------------------------------------------------------------------------------

pub struct Convert;

fn ntracks(sd: &StackD, cell_db: (i64, i64), l: usize) -> usize {
    let ly = &sd.layers[l];
    let breadth = if ly.horiz { cell_db.1 } else { cell_db.0 };
    (breadth / ly.pitch()) as usize * ly.nsig()
}

/// all in-range crossings with the primary track on a layer below `track_below` and the crossing layer adjacent
/// and below `cross_below`
fn crossing_menu(sd: &StackD, cell_db: (i64, i64), track_below: usize, cross_below: usize) -> Vec<CrossD> {
    let mut v = vec![];
    for l in 0..track_below.min(sd.layers.len()) {
        for x in [l.wrapping_sub(1), l + 1] {
            if x >= cross_below || x >= sd.layers.len() {
                continue;
            }
            for t in 0..ntracks(sd, cell_db, l) {
                for c in 0..ntracks(sd, cell_db, x) {
                    v.push(CrossD(l, t, x, c));
                }
            }
        }
    }
    v
}

/// grid positions x reflections for an instance of `child` inside a parent of `size` (primitive pitches):
/// any primitive-pitch position along the tracks of layer 0, whole periods across every layer the child reaches
fn instance_menu(sd: &StackD, size: (i64, i64), child: &ChildD, ci: usize) -> Vec<InstIn> {
    // positions on the primitive grid in both directions: an instance need not sit on the period grid of the
    // layers it reaches (it then blocks every period it overlaps, partly)
    let (stepx, stepy) = (1, 1);
    let _ = ci;
    let mut v = vec![];
    let mut y = 0;
    while y + child.size.1 <= size.1 {
        let mut x = 0;
        while x + child.size.0 <= size.0 {
            for (rh, rv) in [(false, false), (true, false), (false, true), (true, true)] {
                let loc = (if rh { x + child.size.0 } else { x }, if rv { y + child.size.1 } else { y });
                v.push(InstIn { child: ci, loc, rh, rv });
            }
            x += stepx;
        }
        y += stepy;
    }
    v
}

impl CaseDriver for Convert {
    type Case = CaseD;
    fn id(&self) -> &'static str {
        "C08"
    }
    fn describe(&self, t: Tier) -> Describe {
        let names: Vec<String> = family().iter().enumerate().map(|(i, s)| format!("{i}: {}", s.name)).collect();
        Describe {
            rule: format!(
                "{} stacks ({}) x cell metals 1..=stack height x outline {} periods (a period box = lcm of the layer pitches per direction) — all free; then up to {} cuts, {} assignments and {} instance(s) chosen from the complete menus (cuts: every in-range crossing whose track layer is inside the cell's metals and whose crossing layer is adjacent in the stack; assignments: the same with both layers inside the cell's metals, second net equal or different; instances: a 1-metal or 2-metal child of one period box, or a 0-metal child of one primitive pitch (which must block nothing), at every primitive-pitch position (both directions, on or off the period grid of the layers it reaches) that keeps it inside the outline, in all 4 reflections; a single instance optionally with a twin abutting it, or overlapping it by half, along x or along y), cut listing order normal / reversed, with at most {} departures from the empty cell in total (deviation bound). State = (stack, cell); non-trivial = at least one cut, assignment or instance.",
                family().len(),
                names.join("; "),
                t.pick("{1,2} x {1,2}", "{1,2} x {1,2}, 3 x 1, 1 x 3"),
                t.pick(2, 3),
                2,
                t.pick(1, 2),
                self.bound(t)
            ),
            assumptions: vec![
                "tracks are instantiated period by period as the MetalLayer documentation describes; signal track n of a layer is the n-th signal track counted from the outline origin (this is also how the exporter picks the track to cut / assign)".into(),
                "per period, an instance whose cell reaches the layer and whose reflection-aware bounding box overlaps the period blocks, on every track of that period, the extent of that bounding box along the track".into(),
                "a rail shared by two adjacent periods through `overlap` may be emitted once or once per period: exact duplicates of rail rectangles are collapsed on both sides; zero-area rectangles are ignored; everything else is compared as a multiset of (layer, rectangle, net)".into(),
                "Err is an allowed result (counted); not judged against the full reference (counted as unjudged; only 'no wire inside a requested cut' and 'no signal wire inside the span an instance blocks' are checked): overlapping cut / blocked spans, spans reaching beyond the far outline edge, an assignment on a cut or exactly on a piece boundary, two different nets on one piece; a cut reaching below coordinate 0 is expected to be clipped at the outline edge".into(),
                "an assignment whose crossing lies under an instance still yields its via; on the blocked layer there is no wire piece to carry the net".into(),
                "layer purpose of the emitted elements and the raw instances are not judged".into(),
            ],
            excluded: vec![
                "cuts whose track layer, or assignments either of whose layers, is not below the cell's metal count (the exporter indexes per-cell arrays with them and panics: outside the well-formed cells of the quantifier)".into(),
                "track indices outside the outline (silently ignored by the exporter), non-rectangular outlines (explicit Err), abstract views, raw-layout cells".into(),
                "for flipping layers period p starts at offset + p x pitch and lists its entries backwards when p is odd (for offset = -overlap/2 this is a mirror image about the shared rail; for other offsets it is the reading under which wires, cuts and vias of a crossing coincide)".into(),
            ],
            technique: "bounded-exhaustive enumeration of stacks x cells on the real RawExporter::convert, compared with a reference tiling model written from the statement".into(),
        }
    }
    fn bound(&self, t: Tier) -> usize {
        t.pick(2, 3)
    }
    fn gen(&self, t: Tier, c: &mut Chooser) -> CaseD {
        let fam = family();
        let si = c.free(fam.len(), "stack");
        let sd = &fam[si];
        let metals = 1 + c.free(sd.layers.len(), "metals");
        let sizes: &[(i64, i64)] = if t.is_thorough() { &[(1, 1), (2, 1), (1, 2), (2, 2), (3, 1), (1, 3)] } else { &[(1, 1), (2, 1), (1, 2), (2, 2)] };
        let (nx, ny) = sizes[c.free(sizes.len(), "outline")];
        let pb = sd.period_box();
        let cell_db = (nx * pb.0, ny * pb.1);
        let size = (cell_db.0 / sd.prim.0, cell_db.1 / sd.prim.1);
        let unit = (pb.0 / sd.prim.0, pb.1 / sd.prim.1);
        // the third child owns no metal at all: it blocks nothing
        let children = vec![ChildD { metals: 1, size: unit }, ChildD { metals: 2, size: unit }, ChildD { metals: 0, size: (1, 1) }];
        // cuts
        let cm = crossing_menu(sd, cell_db, metals, sd.layers.len());
        let mut cuts = vec![];
        let maxc = t.pick(2, 3);
        let mut from = 0usize;
        for _ in 0..maxc {
            if from >= cm.len() {
                break;
            }
            let k = c.cost(1 + cm.len() - from, "cut");
            if k == 0 {
                break;
            }
            cuts.push(cm[from + k - 1]);
            from += k;
        }
        if cuts.len() >= 2 && c.free(2, "cuts-reversed") == 1 {
            cuts.reverse();
        }
        // assignments
        let am = crossing_menu(sd, cell_db, metals, metals);
        let mut assigns: Vec<(String, CrossD)> = vec![];
        let mut from = 0usize;
        for i in 0..2 {
            if from >= am.len() {
                break;
            }
            let k = c.cost(1 + am.len() - from, "assign");
            if k == 0 {
                break;
            }
            let net = if i == 0 { "a" } else { ["b", "a"][c.free(2, "same-net")] };
            assigns.push((net.to_string(), am[from + k - 1]));
            from += k;
        }
        // instances
        let mut im: Vec<InstIn> = vec![];
        for (ci, ch) in children.iter().enumerate() {
            if ch.metals < metals {
                im.extend(instance_menu(sd, size, ch, ci));
            }
        }
        let mut insts = vec![];
        let mut from = 0usize;
        for _ in 0..t.pick(1, 2) {
            if from >= im.len() {
                break;
            }
            let k = c.cost(1 + im.len() - from, "instance");
            if k == 0 {
                break;
            }
            insts.push(im[from + k - 1].clone());
            from += k;
        }
        // a twin of the (only) instance right next to it, along x or along y, where it fits inside the outline: two
        // instances within one period of the layers running that way
        if insts.len() == 1 {
            // (3, 4: the twin overlaps the instance by half along x / along y - an error, or at least no signal wire
            // inside either of them)
            let tw = c.cost(5, "instance-twin");
            if tw != 0 {
                let i0 = insts[0].clone();
                let ch = &children[i0.child];
                let (dx, dy) = match tw {
                    1 => (ch.size.0, 0),
                    2 => (0, ch.size.1),
                    3 => ((ch.size.0 / 2).max(1), 0),
                    _ => (0, (ch.size.1 / 2).max(1)),
                };
                let twin = InstIn { child: i0.child, loc: (i0.loc.0 + dx, i0.loc.1 + dy), rh: i0.rh, rv: i0.rv };
                if im.iter().any(|m| m.child == twin.child && m.loc == twin.loc && m.rh == twin.rh && m.rv == twin.rv) {
                    insts.push(twin);
                }
            }
        }
        CaseD { stack: si, cell: CellIn { metals, size, cuts, assigns, insts }, children }
    }
    fn check(&self, case: &CaseD, key: &str, cx: &mut Cx) {
        if let Err(e) = self_check() {
            cx.machinery(format!("C08 oracle self-check failed: {e}"));
            return;
        }
        let sd = &family()[case.stack];
        let cell = &case.cell;
        let nontrivial = !cell.cuts.is_empty() || !cell.assigns.is_empty() || !cell.insts.is_empty();
        cx.state(hash_debug(case), nontrivial);
        cx.tag(&format!("stack:{}", case.stack));
        cx.tag(&format!("metals:{}", cell.metals));
        if !cell.cuts.is_empty() {
            cx.tag("has:cut");
        }
        if !cell.assigns.is_empty() {
            cx.tag("has:assignment");
        }
        for i in &cell.insts {
            cx.tag(match (i.rh, i.rv) {
                (false, false) => "inst:r0",
                (true, false) => "inst:rh",
                (false, true) => "inst:rv",
                (true, true) => "inst:rhv",
            });
        }
        let detail = |extra: Value| json!({"stack": render_stack(sd), "cell": render_cell(case), "observed": extra});
        let res = guard(|| run_convert(sd, case));
        let res = match res {
            Err(p) => {
                cx.fail(key, "panic", None, || format!("RawExporter::convert panicked: {}", p.short()), || detail(Value::Null));
                cx.outcome("panic");
                return;
            }
            Ok(Err(e)) => {
                cx.fail(key, "setup-failed", None, || format!("could not build / read back through the public API: {e}"), || detail(Value::Null));
                return;
            }
            Ok(Ok(r)) => r,
        };
        // the reference, per cell: children first (plain cells), then the top cell
        let mut wants: Vec<(String, RefOut)> = vec![];
        for (i, ch) in case.children.iter().enumerate() {
            let cc = CellIn { metals: ch.metals, size: ch.size, cuts: vec![], assigns: vec![], insts: vec![] };
            wants.push((format!("child{i}"), tm::reference(sd, &cc, &[], STATEMENT)));
        }
        let top_ref = tm::reference(sd, cell, &case.children, STATEMENT);
        let judged = matches!(top_ref, RefOut::Judged(_));
        wants.push(("top".to_string(), top_ref));
        let obs = match res {
            Err(e) => {
                // allowed by the statement; classify
                let cls = err_class(&e);
                let defect_input = pred_flip(sd, cell) || pred_refl(sd, cell, &case.children) || pred_edge(sd, cell, true);
                cx.outcome(&format!("{}err{}:{cls}", if judged { "" } else { "unjudged-" }, if defect_input { "(input in a recorded defect class)" } else { "" }));
                if judged {
                    cx.tag(if defect_input { "judged:err-defect-input" } else { "judged:err" });
                    if !defect_input && std::env::var("C08_SHOW_UNJUDGED").is_ok() {
                        cx.fail(key, &format!("DEBUG-err:{cls}"), None, || e.clone(), || detail(Value::Null));
                    }
                }
                return;
            }
            Ok(o) => o,
        };
        if let RefOut::Unjudged(why) = &wants.last().unwrap().1 {
            cx.outcome(&format!("unjudged-ok:{why}"));
            // whatever the reading of such an input: a compiled cell never has wire inside a requested cut of the
            // same track
            if let Some((_, got, _)) = obs.iter().find(|(n, _, _)| n == "top") {
                for (li, (ts, tw), (a, b), is_blk) in tm::removed_spans(sd, cell, &case.children, STATEMENT) {
                    // (blocked spans of signal tracks only, see `removed_spans`)
                    if b <= a {
                        continue;
                    }
                    let horiz = sd.layers[li].horiz;
                    for e in got.iter().filter(|e| e.layer == LayerId::Metal(li)) {
                        let (across, along) = if horiz { ((e.y0, e.y1), (e.x0, e.x1)) } else { ((e.x0, e.x1), (e.y0, e.y1)) };
                        if across == (ts, ts + tw) && along.0 < b && along.1 > a && along.1 > along.0 {
                            cx.fail(
                                key,
                                if is_blk { "wire-inside-a-blocked-span" } else { "wire-inside-a-requested-cut" },
                                None,
                                || format!("cell top, metal {li}, track at {ts}..{}: wire {}..{} reaches into the {} {a}..{b} (input otherwise unjudged: {why})", ts + tw, along.0, along.1, if is_blk { "blocked span" } else { "requested cut" }),
                                || detail(Value::Null),
                            );
                            return;
                        }
                    }
                }
            }
            if std::env::var("C08_SHOW_UNJUDGED").is_ok() {
                // debugging aid only: surfaces one example per class as a (fake) violation
                let got = obs.iter().find(|(n, _, _)| n == "top").map(|(_, g, _)| tm::canonical(g)).unwrap_or_default();
                cx.fail(key, &format!("DEBUG-unjudged:{why}"), None, || why.to_string(), || detail(json!(got.iter().map(render_elem).collect::<Vec<_>>())));
            }
            return;
        }
        cx.tag("judged:ok");
        for (name, want) in &wants {
            let RefOut::Judged(want) = want else {
                cx.machinery(format!("C08: reference cannot judge plain cell {name}"));
                return;
            };
            let Some((_, got, odd)) = obs.iter().find(|(n, _, _)| n == name) else {
                cx.fail(key, "cell-missing", None, || format!("cell {name} missing from the raw library"), || detail(Value::Null));
                cx.outcome("mismatch");
                return;
            };
            if *odd > 0 {
                cx.fail(key, "non-rectangle", None, || format!("cell {name}: {odd} emitted element(s) are not rectangles"), || detail(Value::Null));
                cx.outcome("mismatch");
                return;
            }
            let w = tm::canonical(want);
            let g = tm::canonical(got);
            if w == g {
                continue;
            }
            // mismatch: does the output equal the model run in one of the recorded defect readings?
            let mut finding: Option<String> = None;
            if name == "top" {
                let pf = pred_flip(sd, cell);
                let pr = pred_refl(sd, cell, &case.children);
                // smallest set of recorded defect readings that reproduces the output exactly
                let mut combos: Vec<(bool, bool, bool)> = vec![];
                for n_off in 1..=3 {
                    for (fa, ra, cl) in [(false, true, true), (true, false, true), (true, true, false), (false, false, true), (false, true, false), (true, false, false), (false, false, false)] {
                        if [fa, ra, cl].iter().filter(|b| !**b).count() == n_off {
                            combos.push((fa, ra, cl));
                        }
                    }
                }
                for (fa, ra, cl) in combos {
                    if (!fa && !pf) || (!ra && !pr) || (!cl && !pred_edge(sd, cell, fa)) {
                        continue;
                    }
                    let m = Mode { flip_aware: fa, reflect_aware: ra, clip_low: cl, resolve_ties: true };
                    if let RefOut::Judged(v) = tm::reference(sd, cell, &case.children, m) {
                        if tm::canonical(&v) == g {
                            let mut names = vec![];
                            if !fa {
                                names.push(F_FLIP);
                            }
                            if !ra {
                                names.push(F_REFL);
                            }
                            if !cl {
                                names.push(F_EDGE);
                            }
                            finding = Some(names.join("+"));
                            break;
                        }
                    }
                }
            }
            let (missing, extra) = tm::diff(&w, &g);
            let sig = match &finding {
                Some(_) => "elements-differ",
                None => {
                    if missing.iter().chain(extra.iter()).all(|e| matches!(e.layer, LayerId::Via(_))) {
                        "via-differs"
                    } else if missing.len() == extra.len() && missing.iter().zip(extra.iter()).all(|(a, b)| (a.layer, a.x0, a.y0, a.x1, a.y1) == (b.layer, b.x0, b.y0, b.x1, b.y1)) {
                        "net-differs"
                    } else {
                        "elements-differ"
                    }
                }
            };
            cx.fail(
                key,
                sig,
                finding.as_deref(),
                || format!("cell {name}: {} expected element(s) missing, {} unexpected; first missing {:?}, first unexpected {:?}", missing.len(), extra.len(), missing.first(), extra.first()),
                || detail(json!({"missing": missing.iter().take(8).map(render_elem).collect::<Vec<_>>(), "unexpected": extra.iter().take(8).map(render_elem).collect::<Vec<_>>(), "expected_count": w.len(), "observed_count": g.len()})),
            );
            cx.outcome("mismatch");
            return;
        }
        cx.outcome("ok-equal");
    }
    fn render(&self, case: &CaseD) -> Value {
        json!({"stack": render_stack(&family()[case.stack]), "cell": render_cell(case)})
    }
    fn guards(&self, _t: Tier, stats: &Stats, _d: u64) -> Result<(), String> {
        let mut tags: Vec<String> = (0..family().len()).map(|i| format!("stack:{i}")).collect();
        for t in ["metals:1", "metals:2", "metals:3", "has:cut", "has:assignment", "inst:r0", "inst:rh", "inst:rv", "inst:rhv", "judged:ok"] {
            tags.push(t.to_string());
        }
        require_tags(stats, &tags.iter().map(|s| s.as_str()).collect::<Vec<_>>())?;
        require_outcomes(stats, &["ok-equal"])?;
        let ok = stats.tags.get("judged:ok").copied().unwrap_or(0);
        let err = stats.tags.get("judged:err").copied().unwrap_or(0) + stats.tags.get("judged:err-defect-input").copied().unwrap_or(0);
        // "must error" side: ill-formed requests (assignment on a cut, overlapping cuts) are refused
        if !stats.outcomes.keys().any(|k| k.starts_with("unjudged-err")) {
            return Err("vacuity guard: no ill-formed request was refused with Err".into());
        }
        if ok * 100 < (ok + err) * 60 {
            return Err(format!("vacuity guard: only {ok} of {} well-formed (judged) cells were compiled, the rest returned Err", ok + err));
        }
        Ok(())
    }
    fn unit_target(&self, _t: Tier) -> usize {
        4000
    }
}

fn err_class(e: &str) -> String {
    let keys = [
        "Could not insert blockage",
        "Could not make track-cut",
        "Error Assigning Track",
        "invalid dimension",
        "Invalid TrackRef outside Stack",
        "same direction",
        "non-adjacent",
        "Invalid metal index",
        "undefined via",
    ];
    for k in keys {
        if e.contains(k) {
            return k.to_string();
        }
    }
    truncate(&e.replace('\n', " "), 48)
}

fn render_elem(e: &Elem) -> Value {
    json!({"layer": format!("{:?}", e.layer), "rect": [e.x0, e.y0, e.x1, e.y1], "net": e.net})
}
fn render_stack(sd: &StackD) -> Value {
    json!({
        "name": sd.name,
        "primitive_pitches_xy": [sd.prim.0, sd.prim.1],
        "metals": sd.layers.iter().map(|l| json!({
            "dir": if l.horiz { "Horiz" } else { "Vert" },
            "entries": l.entries().iter().map(|e| format!("{:?}:{}", e.kind, e.w)).collect::<Vec<_>>(),
            "uses_repeat": l.spec.iter().any(|s| matches!(s, SpecD::Rep(..))),
            "offset": l.offset, "overlap": l.overlap, "pitch": l.pitch(), "cutsize": l.cutsize, "flip": if l.flip { "EveryOther" } else { "None" },
        })).collect::<Vec<_>>(),
        "via_sizes_xy": sd.vias.iter().map(|v| json!([v.0, v.1])).collect::<Vec<_>>(),
    })
}
fn render_cell(case: &CaseD) -> Value {
    let c = &case.cell;
    json!({
        "metals": c.metals,
        "outline_rect_prim_pitches": [c.size.0, c.size.1],
        "cuts": c.cuts.iter().map(|x| json!({"track": [x.0, x.1], "cross": [x.2, x.3]})).collect::<Vec<_>>(),
        "assignments": c.assigns.iter().map(|(n, x)| json!({"net": n, "track": [x.0, x.1], "cross": [x.2, x.3]})).collect::<Vec<_>>(),
        "instances": c.insts.iter().map(|i| json!({"cell": format!("child{}", i.child), "child_metals": case.children[i.child].metals, "child_size_prim_pitches": [case.children[i.child].size.0, case.children[i.child].size.1], "loc": [i.loc.0, i.loc.1], "reflect_horiz": i.rh, "reflect_vert": i.rv})).collect::<Vec<_>>(),
    })
}

// ---------------------------------------------------------------------------------------------
// Part 2: operation sequences on a real Track
// ---------------------------------------------------------------------------------------------

#[derive(Clone, Copy, Debug, PartialEq)]
pub enum Op {
    Cut(i64, i64),
    Block(i64, i64),
    /// position, net index (0 = "A", 1 = "B")
    SetNet(i64, usize),
}
const TRACK_STOP: i64 = 80;

pub fn op_alphabet(rail: bool) -> Vec<Op> {
    let mut v = vec![];
    for a in (0..=TRACK_STOP).step_by(10) {
        for b in ((a + 10)..=TRACK_STOP).step_by(10) {
            v.push(Op::Cut(a, b));
            v.push(Op::Block(a, b));
        }
    }
    if !rail {
        // strictly between the cut positions, plus one beyond the end
        for at in (5..=TRACK_STOP + 5).step_by(10) {
            v.push(Op::SetNet(at, 0));
            v.push(Op::SetNet(at, 1));
        }
    }
    v
}

/// model segment kinds; `Wire(mask)`: acceptable nets, bit 0 = none, bit 1 = "A", bit 2 = "B"
#[derive(Clone, Copy, Debug, PartialEq)]
pub enum MK {
    Wire(u8),
    Rail,
    Cut,
    Block,
}
#[derive(Clone, Copy, Debug, PartialEq)]
pub struct MSeg {
    pub k: MK,
    pub a: i64,
    pub b: i64,
}
#[derive(Clone, Debug, PartialEq)]
pub struct Model(pub Vec<MSeg>);
impl Model {
    pub fn new(rail: bool) -> Model {
        Model(vec![MSeg { k: if rail { MK::Rail } else { MK::Wire(1) }, a: 0, b: TRACK_STOP }])
    }
    /// Ok(()) applied, Err(()) refused (model unchanged)
    pub fn apply(&mut self, op: Op) -> Result<(), ()> {
        match op {
            Op::Cut(a, b) | Op::Block(a, b) => {
                // the region must lie inside one wire (or rail) piece
                let Some(i) = self.0.iter().position(|s| s.a <= a && b <= s.b && matches!(s.k, MK::Wire(_) | MK::Rail)) else { return Err(()) };
                let s = self.0[i];
                let keep = match s.k {
                    // splitting a netted wire: whether the halves keep the net is not fixed by the statement
                    MK::Wire(m) if m != 1 => MK::Wire(m | 1),
                    k => k,
                };
                let mut repl = vec![];
                if s.a < a {
                    repl.push(MSeg { k: keep, a: s.a, b: a });
                }
                repl.push(MSeg { k: if matches!(op, Op::Cut(..)) { MK::Cut } else { MK::Block }, a, b });
                if b < s.b {
                    repl.push(MSeg { k: keep, a: b, b: s.b });
                }
                self.0.splice(i..=i, repl);
                Ok(())
            }
            Op::SetNet(at, n) => {
                let Some(i) = self.0.iter().position(|s| s.a < at && at < s.b) else { return Err(()) };
                match self.0[i].k {
                    MK::Wire(m) => {
                        let bit = 2u8 << n;
                        // first assignment: exactly this net; over another net: either (excluded by the statement)
                        self.0[i].k = MK::Wire(if m == 1 || m == bit { bit } else { (m & !1) | bit });
                        Ok(())
                    }
                    MK::Block => Ok(()),
                    MK::Cut => Err(()),
                    MK::Rail => Err(()),
                }
            }
        }
    }
}

/// What the real track looks like: (kind, start, stop) with kind: 0 wire-none, 1 wire-A, 2 wire-B, 3 rail, 4 cut, 5 block
type RealSegs = Vec<(u8, i64, i64)>;

fn trackops_self_check() -> Result<(), String> {
    let mut m = Model::new(false);
    if m.apply(Op::Cut(20, 40)).is_err() || m.apply(Op::Cut(30, 50)).is_ok() || m.apply(Op::Block(40, 50)).is_err() || m.apply(Op::SetNet(25, 0)).is_ok() || m.apply(Op::SetNet(45, 0)).is_err() || m.apply(Op::SetNet(5, 1)).is_err() || m.apply(Op::SetNet(85, 1)).is_ok() {
        return Err("track model basic".into());
    }
    let want = vec![MSeg { k: MK::Wire(4), a: 0, b: 20 }, MSeg { k: MK::Cut, a: 20, b: 40 }, MSeg { k: MK::Block, a: 40, b: 50 }, MSeg { k: MK::Wire(1), a: 50, b: 80 }];
    if m.0 != want {
        return Err(format!("track model state {:?}", m.0));
    }
    if m.apply(Op::Cut(0, 10)).is_err() || m.0[0] != (MSeg { k: MK::Cut, a: 0, b: 10 }) || m.0[1] != (MSeg { k: MK::Wire(5), a: 10, b: 20 }) {
        return Err("track model split of a netted wire".into());
    }
    if op_alphabet(false).len() != 90 || op_alphabet(true).len() != 72 {
        return Err("op alphabet size".into());
    }
    Ok(())
}

pub struct TrackOps;

struct Fixture {
    cross: TrackCross,
    assn: [Assign; 2],
    inst: Ptr<Instance>,
}
fn fixture() -> Result<Fixture, String> {
    let cross = TrackCross::from_parts(0, 0, 1, 0);
    let cellp: Ptr<Cell> = Ptr::new(Layout::new("blocker", 1, Outline::rect(1, 1).map_err(|e| format!("{e:?}"))?).into());
    let inst = Ptr::new(Instance { inst_name: "blk".into(), cell: cellp, loc: Place::Abs(Xy::from((0isize, 0isize))), reflect_horiz: false, reflect_vert: false });
    Ok(Fixture { cross, assn: [Assign::new("A", cross), Assign::new("B", cross)], inst })
}
fn new_track<'a>(rail: bool) -> Track<'a> {
    Track {
        data: TrackData { ttype: if rail { TrackType::Rail(RailKind::Pwr) } else { TrackType::Signal }, index: 0, dir: Dir::Horiz, start: DbUnits(100), width: DbUnits(10) },
        segments: vec![TrackSegment { tp: if rail { TrackSegmentType::Rail(RailKind::Pwr) } else { TrackSegmentType::Wire { src: None } }, start: DbUnits(0), stop: DbUnits(TRACK_STOP as isize) }],
    }
}
fn read_track(t: &Track) -> RealSegs {
    t.segments
        .iter()
        .map(|s| {
            let k = match &s.tp {
                TrackSegmentType::Wire { src: None } => 0,
                TrackSegmentType::Wire { src: Some(a) } => {
                    if a.net == "A" {
                        1
                    } else {
                        2
                    }
                }
                TrackSegmentType::Rail(_) => 3,
                TrackSegmentType::Cut { .. } => 4,
                TrackSegmentType::Blockage { .. } => 5,
            };
            (k, s.start.0 as i64, s.stop.0 as i64)
        })
        .collect()
}
/// ordered, contiguous, non-negative, covering [0, stop]
fn tiling_invariant(r: &RealSegs) -> Result<(), String> {
    if r.is_empty() {
        return Err("no segments".into());
    }
    if r[0].1 != 0 || r[r.len() - 1].2 != TRACK_STOP {
        return Err(format!("segments cover {}..{} instead of 0..{TRACK_STOP}", r[0].1, r[r.len() - 1].2));
    }
    for s in r {
        if s.2 < s.1 {
            return Err(format!("segment of negative length {}..{}", s.1, s.2));
        }
    }
    for w in r.windows(2) {
        if w[0].2 != w[1].1 {
            return Err(format!("gap or overlap between {}..{} and {}..{}", w[0].1, w[0].2, w[1].1, w[1].2));
        }
    }
    Ok(())
}
fn matches_model(r: &RealSegs, m: &Model) -> bool {
    let rr: Vec<&(u8, i64, i64)> = r.iter().filter(|s| s.1 != s.2).collect();
    if rr.len() != m.0.len() {
        return false;
    }
    rr.iter().zip(m.0.iter()).all(|(s, ms)| {
        s.1 == ms.a
            && s.2 == ms.b
            && match ms.k {
                MK::Wire(mask) => s.0 <= 2 && (mask >> s.0) & 1 == 1,
                MK::Rail => s.0 == 3,
                MK::Cut => s.0 == 4,
                MK::Block => s.0 == 5,
            }
    })
}

impl TrackOps {
    fn depth(t: Tier) -> usize {
        t.pick(3, 4)
    }
    /// Run one op sequence from scratch; returns false if a violation was reported.
    fn run_seq(&self, rail: bool, ops: &[Op], cx: &mut Cx, fx: &Fixture) -> bool {
        let key = seq_key(rail, ops);
        let res = guard(|| {
            let mut t = new_track(rail);
            let mut m = Model::new(rail);
            let mut lenient = false;
            for (i, op) in ops.iter().enumerate() {
                let before = read_track(&t);
                let r = match *op {
                    Op::Cut(a, b) => t.cut(DbUnits(a as isize), DbUnits(b as isize), &fx.cross).is_ok(),
                    Op::Block(a, b) => t.block(DbUnits(a as isize), DbUnits(b as isize), &fx.inst).is_ok(),
                    Op::SetNet(at, n) => t.set_net(DbUnits(at as isize), &fx.assn[n]).is_ok(),
                };
                let after = read_track(&t);
                if let Err(e) = tiling_invariant(&after) {
                    return Err(("tiling-broken", format!("after op {i} ({op:?}, returned {}): {e}; segments {after:?}", if r { "Ok" } else { "Err" })));
                }
                if !r && after != before {
                    return Err(("changed-on-error", format!("op {i} ({op:?}) returned Err but changed the segments from {before:?} to {after:?}")));
                }
                let mut m2 = m.clone();
                let mr = m2.apply(*op).is_ok();
                match (mr, r) {
                    (true, true) => {
                        m = m2;
                        if !matches_model(&after, &m) {
                            return Err(("segments-differ", format!("after op {i} ({op:?}): segments {after:?}, model {:?}", m.0)));
                        }
                    }
                    (false, false) => {}
                    (true, false) => {
                        // Err is always allowed; the track is unchanged (checked above), so is the model
                        lenient = true;
                    }
                    (false, true) => {
                        if after != before {
                            // an impossible request was accepted and changed the tiling: not fixed by the statement how;
                            // the invariants were checked, stop comparing this sequence
                            return Ok(Some("accepted-impossible"));
                        }
                        lenient = true;
                    }
                }
            }
            Ok(if lenient { Some("err-where-model-ok") } else { None })
        });
        match res {
            Err(p) => {
                cx.fail(&key, "panic", None, || format!("Track operation panicked in sequence {ops:?}: {}", p.short()), || json!({"rail_track": rail, "ops": format!("{ops:?}")}));
                false
            }
            Ok(Err((sig, what))) => {
                cx.fail(&key, sig, None, || what.clone(), || json!({"rail_track": rail, "ops": format!("{ops:?}")}));
                false
            }
            Ok(Ok(Some(l))) => {
                cx.tag(&format!("trackops:{l}"));
                true
            }
            Ok(Ok(None)) => true,
        }
    }
    fn rec(&self, rail: bool, alpha: &[Op], ops: &mut Vec<Op>, depth: usize, cx: &mut Cx, fx: &Fixture, n: &mut u64) {
        *n += 1;
        self.run_seq(rail, ops, cx, fx);
        if ops.len() == depth {
            return;
        }
        for op in alpha {
            ops.push(*op);
            self.rec(rail, alpha, ops, depth, cx, fx, n);
            ops.pop();
        }
    }
}
fn seq_key(rail: bool, ops: &[Op]) -> String {
    let body: Vec<String> = ops
        .iter()
        .map(|o| match o {
            Op::Cut(a, b) => format!("c{a}-{b}"),
            Op::Block(a, b) => format!("b{a}-{b}"),
            Op::SetNet(a, n) => format!("n{a}-{n}"),
        })
        .collect();
    format!("seq:{}:{}", if rail { "rail" } else { "sig" }, body.join(","))
}
fn parse_seq(key: &str) -> Option<(bool, Vec<Op>)> {
    let rest = key.strip_prefix("seq:")?;
    let (kind, body) = rest.split_once(':')?;
    let mut ops = vec![];
    for tok in body.split(',').filter(|s| !s.is_empty()) {
        let (a, b) = tok[1..].split_once('-')?;
        let (a, b): (i64, i64) = (a.parse().ok()?, b.parse().ok()?);
        ops.push(match &tok[..1] {
            "c" => Op::Cut(a, b),
            "b" => Op::Block(a, b),
            "n" => Op::SetNet(a, b as usize),
            _ => return None,
        });
    }
    Some((kind == "rail", ops))
}

impl Driver for TrackOps {
    fn id(&self) -> &'static str {
        "C08"
    }
    fn describe(&self, t: Tier) -> Describe {
        Describe {
            rule: format!(
                "every sequence of 0..={} calls on a real tracks::Track of length 80 (signal track: cut(a,b) and block(a,b) for all a<b in {{0,10,..,80}} and set_net(at, A|B) for at in {{5,15,..,85}} = 90 operations; rail track: the 72 cut/block operations), every prefix checked; state = one sequence; non-trivial = length >= 2.",
                Self::depth(t)
            ),
            assumptions: vec![
                "cut / block succeed exactly when the span lies inside one wire (or rail) piece, and split it; set_net names the piece strictly containing the position: wire gets the net, blockage is a silent no-op, cut and out-of-bounds are errors (tracks.rs doc comments)".into(),
                "after a netted wire is split, whether the halves keep the net is not judged; a second different net on one piece may leave either; an Err where the model would succeed is allowed (counted) but must leave the segments unchanged".into(),
                "after every call: segments ordered, contiguous, of non-negative length, covering exactly 0..80".into(),
            ],
            excluded: vec!["set_net on a rail track (unreachable!() by construction: the exporter only assigns on signal tracks)".into()],
            technique: "exhaustive operation sequences on the real Track against an interval-list model".into(),
        }
    }
    fn units(&self, _tier: Tier) -> Vec<String> {
        let mut v = vec!["ops:sig:-".to_string(), "ops:rail:-".to_string()];
        for i in 0..op_alphabet(false).len() {
            v.push(format!("ops:sig:{i}"));
        }
        for i in 0..op_alphabet(true).len() {
            v.push(format!("ops:rail:{i}"));
        }
        v
    }
    fn run_unit(&self, unit: &str, cx: &mut Cx) {
        if let Err(e) = self_check() {
            cx.machinery(format!("C08 oracle self-check failed: {e}"));
            return;
        }
        let fx = match fixture() {
            Ok(f) => f,
            Err(e) => {
                cx.machinery(format!("C08 trackops fixture: {e}"));
                return;
            }
        };
        let rest = unit.strip_prefix("ops:").expect("MACHINERY: bad trackops unit");
        let (kind, first) = rest.split_once(':').expect("MACHINERY: bad trackops unit");
        let rail = kind == "rail";
        let alpha = op_alphabet(rail);
        if !cx.enter(unit) {
            return;
        }
        let mut n = 0u64;
        let depth = Self::depth(cx.tier);
        if first == "-" {
            self.run_seq(rail, &[], cx, &fx);
            n = 1;
            cx.bulk_states(1, 0);
        } else {
            let i: usize = first.parse().expect("MACHINERY: bad trackops unit");
            let mut ops = vec![alpha[i]];
            self.rec(rail, &alpha, &mut ops, depth, cx, &fx, &mut n);
            cx.bulk_states(n, n - 1);
        }
        cx.stats.executions += n;
        cx.stats.transitions += n;
        cx.tag(if rail { "trackops:rail" } else { "trackops:signal" });
        cx.outcome("trackops-unit-done");
        if unit == "ops:sig:0" {
            cx.sample(|| json!({"track_ops_example": seq_key(false, &[alpha[0], alpha[3], alpha[80]])}));
        }
    }
    fn run_case(&self, key: &str, cx: &mut Cx) {
        if let Err(e) = self_check() {
            cx.machinery(format!("C08 oracle self-check failed: {e}"));
            return;
        }
        if let Some((rail, ops)) = parse_seq(key) {
            let fx = fixture().expect("MACHINERY: fixture");
            cx.stats.executions += 1;
            cx.enter(key);
            self.run_seq(rail, &ops, cx, &fx);
        } else {
            self.run_unit(key, cx);
        }
    }
    fn render_case(&self, _tier: Tier, key: &str) -> Value {
        match parse_seq(key) {
            Some((rail, ops)) => json!({"track": if rail { "rail, 0..80" } else { "signal, 0..80" }, "operations": ops.iter().map(|o| format!("{o:?}")).collect::<Vec<_>>()}),
            None => json!({"unit": key}),
        }
    }
    fn guards(&self, _tier: Tier, stats: &Stats, _distinct: u64) -> Result<(), String> {
        require_tags(stats, &["trackops:rail", "trackops:signal"])?;
        let lenient = stats.tags.get("trackops:err-where-model-ok").copied().unwrap_or(0) + stats.tags.get("trackops:accepted-impossible").copied().unwrap_or(0);
        if lenient * 100 > stats.executions {
            return Err(format!("vacuity guard: {lenient} operation sequences diverged from the model in the directions the statement allows (Err / accepted impossible request)"));
        }
        Ok(())
    }
}

// ---------------------------------------------------------------------------------------------
// Part 3: outlines that are not a whole number of a layer's periods
// ---------------------------------------------------------------------------------------------

/// Empty cells whose outline exceeds a whole number of period boxes by 1..2 primitive pitches in x and / or
/// y. The statement allows `Err` (what the exporter answers today); an `Ok` must still draw every track that
/// lies inside the outline - also those of the trailing partial period.
pub struct Partial;
#[derive(Clone, Debug)]
pub struct PartialCase {
    pub stack: usize,
    pub metals: usize,
    pub boxes: (i64, i64),
    pub extra: (i64, i64),
}
impl CaseDriver for Partial {
    type Case = PartialCase;
    fn id(&self) -> &'static str {
        "C08"
    }
    fn describe(&self, _t: Tier) -> Describe {
        Describe {
            rule: format!("{} stacks x cell metals 1..=stack height x 1-2 period boxes per direction x 0..=2 extra primitive pitches in x and y (not both zero), empty cells (no cuts / assignments / instances): outlines that are not a whole number of some layer's periods. State = (stack, metals, outline); all non-trivial.", family().len()),
            assumptions: vec!["Err is allowed; an Ok result must contain, for every layer of the cell, a full-length rectangle at the position and width of every rail / signal entry of the trailing partial period that lies entirely inside the outline".into()],
            excluded: vec![],
            technique: "exhaustive enumeration of partial-period outlines on the real RawExporter::convert vs the periodic track pattern".into(),
        }
    }
    fn bound(&self, _t: Tier) -> usize {
        0
    }
    fn gen(&self, _t: Tier, c: &mut Chooser) -> PartialCase {
        let fam = family();
        let si = c.free(fam.len(), "stack");
        let metals = 1 + c.free(fam[si].layers.len(), "metals");
        let boxes = [(1, 1), (2, 1), (1, 2)][c.free(3, "boxes")];
        let e = 1 + c.free(8, "extra");
        PartialCase { stack: si, metals, boxes, extra: ((e % 3) as i64, (e / 3) as i64) }
    }
    fn check(&self, case: &PartialCase, key: &str, cx: &mut Cx) {
        let sd = &family()[case.stack];
        cx.state(hash_debug(case), true);
        let pb = sd.period_box();
        let size_db = (case.boxes.0 * pb.0 + case.extra.0 * sd.prim.0, case.boxes.1 * pb.1 + case.extra.1 * sd.prim.1);
        let size = (size_db.0 / sd.prim.0, size_db.1 / sd.prim.1);
        let cd = CaseD { stack: case.stack, cell: CellIn { metals: case.metals, size, cuts: vec![], assigns: vec![], insts: vec![] }, children: vec![] };
        let whole = (0..case.metals).all(|l| {
            let ly = &sd.layers[l];
            (if ly.horiz { size_db.1 } else { size_db.0 }) % ly.pitch() == 0
        });
        cx.tag(if whole { "partial:whole-periods-after-all" } else { "partial:fractional-period" });
        match guard(|| run_convert(sd, &cd)) {
            Err(p) => cx.fail(key, "partial-panic", None, || format!("RawExporter::convert panicked: {}", p.short()), || Value::Null),
            Ok(Err(e)) => cx.fail(key, "setup-failed", None, || e.clone(), || Value::Null),
            Ok(Ok(Err(_))) => cx.outcome("partial-err"),
            Ok(Ok(Ok(cells))) => {
                let Some((_, elems, _)) = cells.iter().find(|(n, _, _)| n == "top") else {
                    cx.fail(key, "cell-missing", None, || "cell top missing".into(), || Value::Null);
                    return;
                };
                for l in 0..case.metals {
                    let ly = &sd.layers[l];
                    let (breadth, length) = if ly.horiz { (size_db.1, size_db.0) } else { (size_db.0, size_db.1) };
                    let np = (breadth / ly.pitch()) as usize;
                    // every period that starts inside the outline, the trailing partial one included
                    for p in 0..=np {
                        for (kind, start, w) in ly.period(p, true) {
                            if kind == Kind::Gap || start < 0 || start + w > breadth {
                                continue;
                            }
                            let found = elems.iter().any(|e| {
                                e.layer == LayerId::Metal(l) && {
                                    let n = e.clone().normalised();
                                    let (c0, c1, a0, a1) = if ly.horiz { (n.y0, n.y1, n.x0, n.x1) } else { (n.x0, n.x1, n.y0, n.y1) };
                                    c0 == start && c1 == start + w && a0 <= 0 && a1 >= length
                                }
                            });
                            if !found {
                                cx.outcome("partial-track-missing");
                                cx.fail(
                                    key,
                                    "track-inside-outline-not-drawn",
                                    None,
                                    || format!("stack {} metals {} outline {:?} db: layer {l} has a {kind:?} track at {start}..{} (period {p}) inside the outline, but the compiled cell has no rectangle for it", case.stack, case.metals, size_db, start + w),
                                    || json!({"stack": render_stack(sd), "outline_db": [size_db.0, size_db.1], "layer": l, "period": p, "track": [start, start + w]}),
                                );
                                return;
                            }
                        }
                    }
                }
                cx.outcome("partial-ok-complete");
            }
        }
    }
    fn render(&self, case: &PartialCase) -> Value {
        json!({"stack": case.stack, "metals": case.metals, "period_boxes": [case.boxes.0, case.boxes.1], "extra_primitive_pitches": [case.extra.0, case.extra.1]})
    }
    fn guards(&self, _t: Tier, stats: &Stats, _d: u64) -> Result<(), String> {
        require_tags(stats, &["partial:fractional-period"])
    }
}

pub fn driver() -> Box<dyn Driver> {
    Box::new(Multi { id: "C08", parts: vec![("convert", Box::new(super::balance::Balanced(ByCase(Convert)))), ("trackops", Box::new(TrackOps)), ("partial", Box::new(ByCase(Partial)))] })
}
