//! C15 — the GDSII real codec is exact over the format's range.
//!
//! Exhaustive over a structured alphabet of doubles and of 8-byte reals; oracle in exact integer
//! arithmetic (no floating point on the oracle side).

use crate::core::*;
use gds21::{GdsElement, GdsFloat64, GdsLibrary, GdsPoint, GdsStrans, GdsStruct, GdsStructRef, GdsUnits};
use serde_json::{json, Value};

// ---------------------------------------------------------------------------------------------
// Reference model (exact)
// ---------------------------------------------------------------------------------------------

/// Exact normalised excess-64 base-16 encoding of the double with the given IEEE bits.
/// Requires a normal double with 16^-65 <= |x| < 16^63. Unique because the mantissa is normalised.
pub fn ref_encode(bits: u64) -> u64 {
    let sign = bits >> 63;
    let be = ((bits >> 52) & 0x7ff) as i64;
    assert!(be != 0 && be != 0x7ff, "oracle domain: normal doubles only");
    let e = be - 1023; // x = M * 2^(e-52), 2^52 <= M < 2^53
    let m53 = (bits & ((1u64 << 52) - 1)) | (1u64 << 52);
    let k = (e + 4).rem_euclid(4);
    let ex = 64 + (e + 4 - k) / 4;
    assert!((0..=127).contains(&ex), "oracle domain: exponent {ex}");
    (sign << 63) | ((ex as u64) << 56) | (m53 << k)
}

/// Correctly rounded (nearest, ties to even) double of a normalised 8-byte real, as IEEE bits.
pub fn ref_decode(r: u64) -> u64 {
    let sign = r >> 63;
    let ex = ((r >> 56) & 0x7f) as i64;
    let m = r & 0x00ff_ffff_ffff_ffff;
    assert!(m >> 52 != 0, "oracle domain: normalised reals only");
    let nb = 64 - m.leading_zeros() as i64; // 53..=56
    let shift = nb - 53;
    let mut q = m >> shift;
    if shift > 0 {
        let rem = m & ((1u64 << shift) - 1);
        let half = 1u64 << (shift - 1);
        if rem > half || (rem == half && (q & 1) == 1) {
            q += 1;
        }
    }
    let mut e2 = 4 * (ex - 64) - 56 + shift; // value = q * 2^e2
    if q == (1u64 << 53) {
        q >>= 1;
        e2 += 1;
    }
    let unb = e2 + 52;
    let biased = unb + 1023;
    assert!(biased > 0 && biased < 0x7ff);
    (sign << 63) | ((biased as u64) << 52) | (q & ((1u64 << 52) - 1))
}

fn sig_bits(m: u64) -> u32 {
    if m == 0 {
        0
    } else {
        64 - m.leading_zeros() - m.trailing_zeros()
    }
}

/// Oracle self-check against an independent rational evaluation with u128.
fn self_check() -> Result<(), String> {
    // value(r) * 2^(56+256) as integer: m * 2^(4*E); value(x)*2^(52+256+...) similarly; compare on a grid
    for &bits in &[
        1.0f64.to_bits(),
        0.001f64.to_bits(),
        1e-9f64.to_bits(),
        90.0f64.to_bits(),
        (-2.5f64).to_bits(),
        16.0f64.to_bits(),
        (16.0f64 - 16.0 * f64::EPSILON / 2.0).to_bits(),
        0.0625f64.to_bits(),
    ] {
        let r = ref_encode(bits);
        // exactness: M * 2^(e-52) == m * 2^(4(E-64)-56)
        let be = ((bits >> 52) & 0x7ff) as i64 - 1023;
        let m53 = ((bits & ((1u64 << 52) - 1)) | (1u64 << 52)) as u128;
        let ex = ((r >> 56) & 0x7f) as i64;
        let m = (r & 0x00ff_ffff_ffff_ffff) as u128;
        let lhs_exp = be - 52;
        let rhs_exp = 4 * (ex - 64) - 56;
        let (a, b) = if lhs_exp >= rhs_exp { (m53 << (lhs_exp - rhs_exp), m) } else { (m53, m << (rhs_exp - lhs_exp)) };
        if a != b {
            return Err(format!("ref_encode not exact for {bits:#x}"));
        }
        if m >> 52 == 0 {
            return Err("ref_encode not normalised".into());
        }
        if ref_decode(r) != bits {
            return Err(format!("ref_decode(ref_encode) != id for {bits:#x}"));
        }
    }
    if ref_encode(1.0f64.to_bits()) != 0x4110_0000_0000_0000 {
        return Err("ref_encode(1.0) wrong".into());
    }
    if ref_encode(0.001f64.to_bits()) >> 56 != 0x3e {
        return Err("ref_encode(0.001) exponent wrong".into());
    }
    // rounding: 0x41 1fffffffffffff8 (56 bit mantissa 0x1fffff...f8 ) etc.
    let r = (0x41u64 << 56) | 0x00ff_ffff_ffff_ffff; // 16 - 2^-52 -> rounds to 16.0
    if f64::from_bits(ref_decode(r)) != 16.0 {
        return Err("ref_decode rounding up to power failed".into());
    }
    Ok(())
}

// ---------------------------------------------------------------------------------------------
// Alphabets
// ---------------------------------------------------------------------------------------------

pub const E_MIN: i64 = -256; // 16^-64 = 2^-256
pub const E_MAX: i64 = 251; // 16^63 = 2^252

/// 52-bit fraction patterns.
pub fn frac_patterns(full: bool) -> Vec<u64> {
    let ones = (1u64 << 52) - 1;
    let mut v = vec![0, 1, 2, 3, ones, ones - 1, ones - 2, ones - 3];
    v.push(0x5_5555_5555_5555);
    v.push(0xA_AAAA_AAAA_AAAA);
    v.push(0x9_21FB_5444_2D18); // pi
    v.push(0x5_BF0A_8B14_5769); // e
    v.push(0x8_0000_0000_0000);
    v.push(0x8_0000_0000_0001);
    v.push(0x7_FFFF_FFFF_FFFF);
    for i in 0..52 {
        v.push(1u64 << i);
    }
    if full {
        for i in 0..52 {
            for j in (i + 1)..52 {
                v.push((1u64 << i) | (1u64 << j));
            }
        }
    } else {
        // quick: 2-bit patterns touching the four lowest or the four highest bits
        for i in 0..52 {
            for j in (i + 1)..52 {
                if i < 4 || j >= 48 {
                    v.push((1u64 << i) | (1u64 << j));
                }
            }
        }
    }
    if full {
        // every 3-bit pattern
        let pos: Vec<u32> = (0..52).collect();
        for a in 0..pos.len() {
            for b in (a + 1)..pos.len() {
                for c in (b + 1)..pos.len() {
                    v.push((1u64 << pos[a]) | (1u64 << pos[b]) | (1u64 << pos[c]));
                }
            }
        }
    }
    if full {
        // every 4-bit and 5-bit pattern, and the complement of every pattern so far (carries rippling through long runs of ones)
        for a in 0..52u32 {
            for b in (a + 1)..52 {
                for c in (b + 1)..52 {
                    for d in (c + 1)..52 {
                        let p4 = (1u64 << a) | (1u64 << b) | (1u64 << c) | (1u64 << d);
                        v.push(p4);
                        for e in (d + 1)..52 {
                            v.push(p4 | (1u64 << e));
                        }
                    }
                }
            }
        }
        let n = v.len();
        for i in 0..n {
            v.push(ones ^ v[i]);
        }
    }
    v.sort_unstable();
    v.dedup();
    v
}

fn real_mantissas(full: bool) -> Vec<u64> {
    // 56-bit mantissas with non-zero first nibble
    let mut v = vec![];
    let low52 = (1u64 << 52) - 1;
    for n in 1u64..16 {
        let top = n << 52;
        v.push(top);
        v.push(top | low52);
        for i in 0..52 {
            v.push(top | (1u64 << i));
        }
        if full || n == 1 || n == 8 || n == 15 {
            for i in 0..52 {
                for j in (i + 1)..52 {
                    if full || i < 5 {
                        v.push(top | (1u64 << i) | (1u64 << j));
                    }
                }
            }
        }
    }
    // rounding cases: nb-bit mantissas (nb = 54,55,56) = 53-bit prefix followed by every low pattern
    let prefixes: [u64; 7] = [
        1u64 << 52,
        (1u64 << 52) | 1,
        (1u64 << 53) - 1,
        (1u64 << 53) - 2,
        0x15_5555_5555_5555,
        0x1A_AAAA_AAAA_AAAA,
        0x19_21FB_5444_2D18,
    ];
    for shift in 1..=3u32 {
        for p in prefixes {
            for low in 0..(1u64 << shift) {
                v.push((p << shift) | low);
            }
        }
    }
    v.sort_unstable();
    v.dedup();
    v
}

// ---------------------------------------------------------------------------------------------
// Driver
// ---------------------------------------------------------------------------------------------

pub struct C15;

/// one codec call in an operation sequence
#[derive(Clone, Debug)]
pub enum SeqOp {
    Enc(u64),
    Dec(u64),
}
pub const SEQ_ALPHABET_LEN: usize = 38;
/// value alphabet for call sequences: +-x pairs, neighbours, whole numbers around 2^31, and reals
pub fn seq_alphabet() -> Vec<SeqOp> {
    let mut v = vec![];
    for x in [1.0f64, 2.5, 1e-3, 90.0, 2147483648.0, 4294967295.0, 16.0, 0.0625, 1e-9, 7.237005577332262e75 / 16.0] {
        v.push(SeqOp::Enc(x.to_bits()));
        v.push(SeqOp::Enc((-x).to_bits()));
        v.push(SeqOp::Enc(x.to_bits() + 1));
    }
    for r in [0x4110_0000_0000_0000u64, 0xC110_0000_0000_0000, 0x0010_0000_0000_0000, 0x7FFF_FFFF_FFFF_FFFF, 0x41FF_FFFF_FFFF_FFF8, 0x3E41_8937_4BC6_A7F0, 0x4080_0000_0000_0000, 0xC020_0000_0000_0000] {
        v.push(SeqOp::Dec(r));
    }
    assert_eq!(v.len(), SEQ_ALPHABET_LEN);
    v
}

const F_ENC_VALUE: &str = "gds_real_encode_below_power_of_16";

fn finding_for_encode(bits: u64) -> Option<&'static str> {
    // the recorded defect class: x within 3 ulp *below* a power of sixteen
    let frac = bits & ((1u64 << 52) - 1);
    let be = ((bits >> 52) & 0x7ff) as i64 - 1023;
    let ones = (1u64 << 52) - 1;
    if frac >= ones - 3 && (be + 1).rem_euclid(4) == 0 {
        Some(F_ENC_VALUE)
    } else {
        None
    }
}

impl C15 {
    fn check_double(&self, bits: u64, cx: &mut Cx) {
        let x = f64::from_bits(bits);
        let key = format!("d:{bits:016x}");
        cx.stats.evaluations += 1;
        let want = ref_encode(bits);
        let got = match guard(|| GdsFloat64::encode(x)) {
            Ok(g) => g,
            Err(p) => {
                cx.fail(&key, "encode-panic", finding_for_encode(bits), || format!("encode({x:e}) {}", p.short()), || json!({"x_bits": format!("{bits:#018x}")}));
                return;
            }
        };
        if got != want {
            let normalised = (got >> 52) & 0xf != 0;
            let sig = if normalised { "encode-value" } else { "encode-unnormalised" };
            cx.fail(
                &key,
                sig,
                finding_for_encode(bits),
                || format!("encode({x:e}) = {got:#018x}, exact normalised encoding is {want:#018x}"),
                || json!({"x": x, "x_bits": format!("{bits:#018x}"), "got": format!("{got:#018x}"), "want": format!("{want:#018x}")}),
            );
            cx.outcome("encode-mismatch");
        } else {
            cx.outcome("encode-exact");
        }
        let back = match guard(|| GdsFloat64::decode(GdsFloat64::encode(x))) {
            Ok(b) => b,
            Err(p) => {
                cx.fail(&key, "roundtrip-panic", finding_for_encode(bits), || p.short(), || Value::Null);
                return;
            }
        };
        if back.to_bits() != bits {
            cx.fail(
                &key,
                "roundtrip",
                finding_for_encode(bits),
                || format!("decode(encode({x:e})) = {back:e} ({:#018x} != {bits:#018x})", back.to_bits()),
                || json!({"x_bits": format!("{bits:#018x}"), "back_bits": format!("{:#018x}", back.to_bits())}),
            );
        }
    }

    fn check_real(&self, r: u64, cx: &mut Cx) {
        let key = format!("r:{r:016x}");
        cx.stats.evaluations += 1;
        let want = ref_decode(r);
        let got = match guard(|| GdsFloat64::decode(r)) {
            Ok(g) => g.to_bits(),
            Err(p) => {
                cx.fail(&key, "decode-panic", None, || p.short(), || Value::Null);
                return;
            }
        };
        if got != want {
            cx.fail(
                &key,
                "decode-rounding",
                None,
                || format!("decode({r:#018x}) = {:e} ({got:#018x}), correctly rounded is {:e} ({want:#018x})", f64::from_bits(got), f64::from_bits(want)),
                || json!({"real": format!("{r:#018x}"), "got": format!("{got:#018x}"), "want": format!("{want:#018x}")}),
            );
            cx.outcome("decode-mismatch");
            return;
        }
        cx.outcome("decode-exact");
        let m = r & 0x00ff_ffff_ffff_ffff;
        if sig_bits(m) <= 53 {
            cx.tag("reencode-checked");
            let re = match guard(|| GdsFloat64::encode(f64::from_bits(got))) {
                Ok(g) => g,
                Err(p) => {
                    cx.fail(&key, "reencode-panic", None, || p.short(), || Value::Null);
                    return;
                }
            };
            if re != r {
                cx.fail(
                    &key,
                    "reencode",
                    finding_for_encode(got),
                    || format!("encode(decode({r:#018x})) = {re:#018x}"),
                    || json!({"real": format!("{r:#018x}"), "reencoded": format!("{re:#018x}")}),
                );
            }
        }
    }

    /// Push a value through UNITS / MAG / ANGLE records of a real stream.
    fn check_records(&self, bits: u64, cx: &mut Cx) {
        let x = f64::from_bits(bits);
        let key = format!("s:{bits:016x}");
        cx.stats.evaluations += 1;
        let mut lib = GdsLibrary::new("L");
        lib.units = GdsUnits::new(x, -x);
        lib.set_all_dates(chrono_fixed());
        let mut s = GdsStruct::new("S");
        s.elems.push(GdsElement::GdsStructRef(GdsStructRef {
            name: "T".into(),
            xy: GdsPoint::new(1, 2),
            strans: Some(GdsStrans { mag: Some(x), angle: Some(-x), ..Default::default() }),
            ..Default::default()
        }));
        lib.structs.push(s);
        let lib2 = lib.clone();
        let res = guard(move || {
            let mut buf: Vec<u8> = Vec::new();
            lib2.write(&mut buf).map_err(|e| format!("{e:?}")).and_then(|_| GdsLibrary::from_bytes(&buf).map_err(|e| format!("{e:?}")))
        });
        match res {
            Err(p) => cx.fail(&key, "records-panic", finding_for_encode(bits), || p.short(), || Value::Null),
            Ok(Err(e)) => {
                cx.fail(&key, "records-error", finding_for_encode(bits), || format!("write/read of in-range real {x:e} failed: {}", truncate(&e, 200)), || Value::Null)
            }
            Ok(Ok(back)) => {
                let same = back.units.0.to_bits() == bits
                    && back.units.1.to_bits() == (-x).to_bits()
                    && match &back.structs.get(0).and_then(|s| s.elems.get(0)) {
                        Some(GdsElement::GdsStructRef(r)) => {
                            let st = r.strans.clone().unwrap_or_default();
                            st.mag.map(|m| m.to_bits()) == Some(bits) && st.angle.map(|m| m.to_bits()) == Some((-x).to_bits())
                        }
                        _ => false,
                    };
                if !same {
                    cx.fail(
                        &key,
                        "records-value",
                        finding_for_encode(bits),
                        || format!("UNITS/MAG/ANGLE carrying {x:e} read back as units=({:e},{:e})", back.units.0, back.units.1),
                        || json!({"x_bits": format!("{bits:#018x}")}),
                    );
                } else {
                    cx.outcome("records-exact");
                }
            }
        }
    }
}

pub fn chrono_fixed() -> gds21::GdsDateTime {
    gds21::GdsDateTime { year: 101, month: 2, day: 3, hour: 4, minute: 5, second: 6 }
}

impl Driver for C15 {
    fn id(&self) -> &'static str {
        "C15"
    }
    fn describe(&self, tier: Tier) -> Describe {
        Describe {
            rule: format!(
                "doubles: every binary exponent -256..=251 (16^-64 <= |x| < 16^63) x both signs x {} fraction patterns (0..3, all-ones-0..3 i.e. everything within 3 ulp of every power of two and sixteen, all 1-bit{} patterns, alternating, pi, e) plus +-0; 8-byte reals: exponent byte 0..127 x sign x {} normalised mantissas (first nibble 1..15 with zeros / ones / 1-bit / 2-bit tails, and every low-bit pattern under seven 53-bit prefixes = all rounding cases: below half, tie to even both ways, above half); every edge value also through UNITS/MAG/ANGLE records with write+from_bytes. A state is one value; non-trivial = mantissa/fraction not zero. Also every call sequence of length 2 and 3 over a 38-value alphabet of encode / decode calls (+-x pairs, neighbours, whole numbers around 2^31, extreme reals, reals with exponent byte 0x40): the last call must return the exact result whatever was called before (the codec is a pure function); every single call and every pair also as the first calls of a freshly started thread. Oracle: exact integer arithmetic (unique normalised encoding; round-to-nearest-even decode).",
                frac_patterns(tier.is_thorough()).len(),
                if tier.is_thorough() { ", all 2-, 3-, 4- and 5-bit patterns and the complement of each" } else { ", edge 2-bit" },
                real_mantissas(tier.is_thorough()).len()
            ),
            assumptions: vec!["+0.0 and -0.0 compare equal (the format has one zero)".into()],
            excluded: vec!["subnormal / non-finite doubles and |x| outside [16^-64,16^63) (outside the statement)".into()],
            technique: "exhaustive enumeration of a structured double / 8-byte-real alphabet on the real codec against an exact integer reference".into(),
        }
    }
    fn units(&self, _tier: Tier) -> Vec<String> {
        let mut v = vec![];
        for e in E_MIN..=E_MAX {
            v.push(format!("D:{e}"));
        }
        for ex in 0..128 {
            v.push(format!("R:{ex}"));
        }
        v.push("z".into());
        for i in 0..SEQ_ALPHABET_LEN {
            v.push(format!("Q:{i}"));
        }
        if _tier.is_thorough() {
            for i in 0..64 {
                v.push(format!("X:{i}"));
            }
        }
        v
    }
    fn run_unit(&self, unit: &str, cx: &mut Cx) {
        if let Err(e) = self_check() {
            cx.machinery(format!("C15 oracle self-check failed: {e}"));
            return;
        }
        let full = cx.tier.is_thorough();
        if unit == "z" {
            cx.enter("z");
            for z in [0.0f64, -0.0f64] {
                cx.stats.evaluations += 1;
                cx.stats.executions += 1;
                let e = GdsFloat64::encode(z);
                let d = GdsFloat64::decode(e);
                if d != 0.0 {
                    cx.fail("z", "zero", None, || format!("zero round trip gives {d:e}"), || Value::Null);
                }
                cx.state(hash_bytes(&z.to_bits().to_le_bytes()), false);
            }
            cx.tag("zero");
            return;
        }
        if let Some(qs) = unit.strip_prefix("Q:") {
            // operation sequences: the codec must be a pure function - every call sequence of length 2 and 3
            // over a small value alphabet (mixing encode and decode calls) must give, at its last call, the
            // exact result, whatever was encoded or decoded before ("start from non-initial states")
            let first: usize = qs.parse().unwrap();
            cx.enter(unit);
            let alpha = seq_alphabet();
            let call = |op: &SeqOp| -> u64 {
                match op {
                    SeqOp::Enc(b) => GdsFloat64::encode(f64::from_bits(*b)),
                    SeqOp::Dec(r) => GdsFloat64::decode(*r).to_bits(),
                }
            };
            let want = |op: &SeqOp| -> u64 {
                match op {
                    SeqOp::Enc(b) => ref_encode(*b),
                    SeqOp::Dec(r) => ref_decode(*r),
                }
            };
            let mut n = 0u64;
            let a = &alpha[first];
            // the same on a thread that has never called the codec before: the single call, and every pair
            for b in std::iter::once(None).chain(alpha.iter().map(Some)) {
                n += 1;
                cx.stats.executions += 1;
                cx.stats.transitions += if b.is_some() { 2 } else { 1 };
                cx.stats.evaluations += 1;
                let (a2, b2) = (a.clone(), b.cloned());
                let last = b.unwrap_or(a);
                let key = format!("qt:{first}:{}", n);
                let got = std::thread::spawn(move || {
                    guard(|| {
                        let call = |op: &SeqOp| -> u64 {
                            match op {
                                SeqOp::Enc(b) => GdsFloat64::encode(f64::from_bits(*b)),
                                SeqOp::Dec(r) => GdsFloat64::decode(*r).to_bits(),
                            }
                        };
                        let r = call(&a2);
                        match &b2 {
                            Some(b) => call(b),
                            None => r,
                        }
                    })
                })
                .join();
                match got {
                    Err(_) => cx.fail(&key, "sequence-panic", None, || "a fresh thread calling the codec died".to_string(), || Value::Null),
                    Ok(Err(p)) => cx.fail(&key, "sequence-panic", None, || p.short(), || Value::Null),
                    Ok(Ok(g)) => {
                        if g != want(last) {
                            cx.outcome("sequence-mismatch");
                            cx.fail(&key, "call-sequence-fresh-thread", None, || format!("on a freshly started thread, {}the call {:?} returned {g:#018x}, the exact result is {:#018x}", if b.is_some() { format!("after {:?} ", a) } else { String::new() }, last, want(last)), || Value::Null);
                        } else {
                            cx.outcome("sequence-exact");
                        }
                    }
                }
            }
            for b in alpha.iter() {
                for c3 in std::iter::once(None).chain(alpha.iter().map(Some)) {
                    n += 1;
                    cx.stats.executions += 1;
                    cx.stats.transitions += if c3.is_some() { 3 } else { 2 };
                    cx.stats.evaluations += 1;
                    let last = c3.unwrap_or(b);
                    let got = guard(|| {
                        let _ = call(a);
                        if c3.is_some() {
                            let _ = call(b);
                        }
                        call(last)
                    });
                    let key = format!("q:{first}:{}", n);
                    match got {
                        Err(p) => cx.fail(&key, "sequence-panic", None, || p.short(), || Value::Null),
                        Ok(g) => {
                            if g != want(last) {
                                cx.outcome("sequence-mismatch");
                                cx.fail(
                                    &key,
                                    "call-sequence",
                                    None,
                                    || format!("after {:?}{} the call {:?} returned {g:#018x}, the exact result is {:#018x}", a, if c3.is_some() { format!(", {:?}", b) } else { String::new() }, last, want(last)),
                                    || json!({"sequence": format!("{:?} {:?} {:?}", a, b, c3)}),
                                );
                            } else {
                                cx.outcome("sequence-exact");
                            }
                        }
                    }
                }
            }
            cx.bulk_states(n, n);
            cx.tag("sequences");
            return;
        }
        if let Some(xs) = unit.strip_prefix("X:") {
            // labelled sampling supplement (never the deciding step): VERIF_SEED-driven uniform bit patterns
            let shard: u64 = xs.parse().unwrap();
            cx.enter(unit);
            let mut st = cx.seed ^ shard.wrapping_mul(0x9E3779B97F4A7C15) ^ 0xC15;
            let mut next = || {
                st = st.wrapping_add(0x9E3779B97F4A7C15);
                let mut z = st;
                z = (z ^ (z >> 30)).wrapping_mul(0xBF58476D1CE4E5B9);
                z = (z ^ (z >> 27)).wrapping_mul(0x94D049BB133111EB);
                z ^ (z >> 31)
            };
            for _ in 0..20000 {
                let r = next();
                let e = E_MIN + (r % ((E_MAX - E_MIN + 1) as u64)) as i64;
                let bits = (next() & 0x800F_FFFF_FFFF_FFFF) | (((e + 1023) as u64) << 52);
                cx.stats.supplement_evaluations += 1;
                self.check_double(bits, cx);
                let m = next() & 0x00FF_FFFF_FFFF_FFFF;
                if m >> 52 != 0 {
                    let rr = (next() & 0xFF00_0000_0000_0000) | m;
                    cx.stats.supplement_evaluations += 1;
                    self.check_real(rr, cx);
                }
            }
            cx.tag("supplement");
            return;
        }
        if let Some(es) = unit.strip_prefix("D:") {
            let e: i64 = es.parse().unwrap();
            cx.enter(unit);
            let pats = frac_patterns(full);
            let edge: Vec<u64> = {
                let ones = (1u64 << 52) - 1;
                vec![0, 1, 2, 3, ones, ones - 1, ones - 2, ones - 3, 0x9_21FB_5444_2D18, 1u64 << 51]
            };
            for sign in 0..2u64 {
                for &f in &pats {
                    let bits = (sign << 63) | (((e + 1023) as u64) << 52) | f;
                    cx.stats.executions += 1;
                    cx.stats.transitions += 1;
                    self.check_double(bits, cx);
                }
                for &f in &edge {
                    let bits = (sign << 63) | (((e + 1023) as u64) << 52) | f;
                    cx.stats.executions += 1;
                    self.check_records(bits, cx);
                }
            }
            cx.bulk_states(2 * pats.len() as u64, 2 * (pats.len() as u64 - 1));
            cx.tag("doubles");
            if cx.worker < 2 && e == 0 {
                cx.sample(|| json!({"double_bits": format!("{:#018x}", (1023u64 << 52) | 3), "exact_encoding": format!("{:#018x}", ref_encode((1023u64 << 52) | 3))}));
            }
            return;
        }
        if let Some(es) = unit.strip_prefix("R:") {
            let ex: u64 = es.parse().unwrap();
            cx.enter(unit);
            let ms = real_mantissas(full);
            for sign in 0..2u64 {
                for &m in &ms {
                    let r = (sign << 63) | (ex << 56) | m;
                    cx.stats.executions += 1;
                    cx.stats.transitions += 1;
                    self.check_real(r, cx);
                }
            }
            cx.bulk_states(2 * ms.len() as u64, 2 * ms.len() as u64 - 30);
            cx.tag("reals");
            if ex == 65 {
                cx.sample(|| json!({"real": format!("{:#018x}", (65u64 << 56) | 0xffff_ffff_ffff_ff), "correctly_rounded_double": f64::from_bits(ref_decode((65u64 << 56) | 0xffff_ffff_ffff_ff))}));
            }
            return;
        }
        panic!("MACHINERY: C15 bad unit {unit}");
    }
    fn run_case(&self, key: &str, cx: &mut Cx) {
        if let Err(e) = self_check() {
            cx.machinery(format!("C15 oracle self-check failed: {e}"));
            return;
        }
        cx.stats.executions += 1;
        cx.stats.transitions += 1;
        if let Some(h) = key.strip_prefix("d:") {
            if let Ok(bits) = u64::from_str_radix(h, 16) {
                return self.check_double(bits, cx);
            }
        } else if let Some(h) = key.strip_prefix("r:") {
            if let Ok(r) = u64::from_str_radix(h, 16) {
                return self.check_real(r, cx);
            }
        } else if let Some(h) = key.strip_prefix("s:") {
            if let Ok(bits) = u64::from_str_radix(h, 16) {
                return self.check_records(bits, cx);
            }
        }
        // a unit key (blamed crash): re-run the unit
        self.run_unit(key, cx);
    }
    fn render_case(&self, _tier: Tier, key: &str) -> Value {
        if let Some(h) = key.strip_prefix("d:").or(key.strip_prefix("s:")) {
            if let Ok(bits) = u64::from_str_radix(h, 16) {
                return json!({"double": f64::from_bits(bits), "bits": format!("{bits:#018x}"), "exact_normalised_encoding": format!("{:#018x}", ref_encode(bits))});
            }
        }
        if let Some(h) = key.strip_prefix("r:") {
            if let Ok(r) = u64::from_str_radix(h, 16) {
                return json!({"real": format!("{r:#018x}"), "correctly_rounded_bits": format!("{:#018x}", ref_decode(r))});
            }
        }
        json!({"unit": key})
    }
    fn guards(&self, _tier: Tier, stats: &Stats, _distinct: u64) -> Result<(), String> {
        require_tags(stats, &["doubles", "reals", "zero", "reencode-checked", "sequences"])?;
        require_outcomes(stats, &["encode-exact", "decode-exact", "records-exact"])
    }
}

pub fn driver() -> Box<dyn Driver> {
    Box::new(C15)
}
