//! Shared LEF library *value* generator (C04, C05, C11 bases): a grammar walk over lef21's data model,
//! driven by a `Chooser`. Builds `lef21::LefLibrary` values through their public fields only.
//!
//! One *focus* (free choice) selects which part of the grammar is elaborated; inside a focus every field
//! is present with a witness value by default (distinct per site, so that swapped / cross-wired fields
//! are visible) and every costed alternative is: another enum variant, absent, or another value.

use crate::explore::Chooser;
use lef21::*;
use rust_decimal::Decimal;
use std::str::FromStr;

pub fn d(s: &str) -> Decimal {
    Decimal::from_str(s).expect("generator decimal literal")
}
pub fn pt(x: &str, y: &str) -> LefPoint {
    LefPoint { x: d(x), y: d(y) }
}

pub const NUM_ALTS: &[&str] = &["0.5", "-0.5", "0", "15", "-7.25", "0.005", "123456.789", "1.0000005"];
pub const NAME_ALTS: &[&str] = &["A", "x[3]", "n<1>", "VDD!", "18T", "PIN", "_u1", "a.b/c", "-x"];

pub const FOCI: &[&str] = &[
    "minimal", "header", "units", "propdefs", "ext", "site", "via_fixed", "via_gen", "macro_attrs", "pin_attrs",
    "pin_antenna", "ports", "geoms", "obs", "density", "property", "multi",
];

pub struct G<'a> {
    pub c: &'a mut Chooser,
}

impl<'a> G<'a> {
    pub fn num(&mut self, default: &str, label: &'static str) -> Decimal {
        let i = self.c.cost(1 + NUM_ALTS.len(), label);
        if i == 0 {
            d(default)
        } else {
            d(NUM_ALTS[i - 1])
        }
    }
    pub fn opt_num(&mut self, default: &str, label: &'static str) -> Option<Decimal> {
        let i = self.c.cost(2 + NUM_ALTS.len(), label);
        if i == 0 {
            Some(d(default))
        } else if i <= NUM_ALTS.len() {
            Some(d(NUM_ALTS[i - 1]))
        } else {
            None
        }
    }
    pub fn name(&mut self, default: &str, label: &'static str) -> String {
        let i = self.c.cost(1 + NAME_ALTS.len(), label);
        if i == 0 {
            default.to_string()
        } else {
            NAME_ALTS[i - 1].to_string()
        }
    }
    pub fn opt_name(&mut self, default: &str, label: &'static str) -> Option<String> {
        let i = self.c.cost(2 + NAME_ALTS.len(), label);
        if i == 0 {
            Some(default.to_string())
        } else if i <= NAME_ALTS.len() {
            Some(NAME_ALTS[i - 1].to_string())
        } else {
            None
        }
    }
    pub fn of<T: Clone>(&mut self, xs: &[T], label: &'static str) -> T {
        self.c.cost_of(xs, label)
    }
    pub fn point(&mut self, x: &str, y: &str, lx: &'static str, ly: &'static str) -> LefPoint {
        LefPoint { x: self.num(x, lx), y: self.num(y, ly) }
    }
}

fn lib_v(version: Option<&str>) -> LefLibrary {
    LefLibrary { version: version.map(d), ..Default::default() }
}
pub fn rect(x1: &str, y1: &str, x2: &str, y2: &str) -> LefGeometry {
    LefGeometry::Shape(LefShape::Rect(None, pt(x1, y1), pt(x2, y2)))
}
pub fn layer(name: &str, geoms: Vec<LefGeometry>) -> LefLayerGeometries {
    LefLayerGeometries { layer_name: name.into(), geometries: geoms, ..Default::default() }
}
fn simple_pin(name: &str, lname: &str, r: LefGeometry) -> LefPin {
    LefPin {
        name: name.into(),
        direction: Some(LefPinDirection::Input),
        ports: vec![LefPort { class: None, layers: vec![layer(lname, vec![r])] }],
        ..Default::default()
    }
}
fn simple_macro(name: &str) -> LefMacro {
    LefMacro { name: name.into(), size: Some((d("1.38"), d("2.72"))), ..Default::default() }
}
fn prop(n: &str, v: &str) -> LefProperty {
    LefProperty { name: n.into(), value: v.into() }
}

// ---------------------------------------------------------------------------------------------

fn minimal(g: &mut G) -> LefLibrary {
    match g.c.free(6, "minimal.kind") {
        0 => lib_v(None),
        1 => lib_v(Some("5.8")),
        2 => LefLibrary { macros: vec![LefMacro::new("m0")], ..lib_v(Some("5.8")) },
        3 => LefLibrary { macros: vec![LefMacro::new("m0")], ..lib_v(None) },
        4 => LefLibrary { macros: vec![LefMacro::new("m0")], ..lib_v(Some("5.4")) },
        _ => LefLibrary { macros: vec![LefMacro::new("m0"), LefMacro::new("m1")], ..lib_v(Some("5.6")) },
    }
}

fn header(g: &mut G) -> LefLibrary {
    let vs: [Option<&str>; 7] = [Some("5.8"), Some("5.7"), Some("5.6"), Some("5.5"), Some("5.4"), Some("5.3"), None];
    let v = vs[g.c.free(7, "header.version")];
    let old = matches!(v, Some("5.4") | Some("5.3"));
    let mut lib = lib_v(v);
    use LefOnOff::{Off, On};
    if old {
        lib.names_case_sensitive = g.of(&[Some(On), Some(Off), None], "header.ncs");
        lib.no_wire_extension_at_pin = g.of(&[Some(Off), Some(On), None], "header.nwe");
    } else {
        lib.no_wire_extension_at_pin = g.of(&[None, Some(On), Some(Off)], "header.nwe_new");
    }
    lib.bus_bit_chars = g.of(&[Some(('[', ']')), Some(('<', '>')), Some(('(', ')')), None], "header.busbit");
    lib.divider_char = g.of(&[Some('/'), Some('|'), Some(':'), Some('\\'), None], "header.divider");
    lib.manufacturing_grid = g.opt_num("0.005", "header.mfg");
    lib.use_min_spacing = g.of(&[Some(On), Some(Off), None], "header.ums");
    lib.clearance_measure =
        g.of(&[Some(LefClearanceStyle::MaxXY), Some(LefClearanceStyle::Euclidean), None], "header.clearance");
    lib.fixed_mask = g.of(&[true, false], "header.fixedmask");
    let mut m0 = simple_macro("m0");
    // FIXEDMASK at library level and in a macro of the same library
    m0.fixed_mask = g.of(&[false, true], "header.macro-fixedmask");
    lib.macros = vec![m0];
    lib
}

fn units(g: &mut G) -> LefLibrary {
    let mut lib = lib_v(Some("5.8"));
    let dbu = g.of(
        &[Some(2000u32), Some(100), Some(200), Some(400), Some(800), Some(1000), Some(4000), Some(8000), Some(10000), Some(20000), None],
        "units.dbu",
    );
    lib.units = Some(LefUnits {
        database_microns: dbu.map(LefDbuPerMicron),
        time_ns: g.opt_num("1.5", "units.time"),
        capacitance_pf: g.opt_num("2.25", "units.cap"),
        resistance_ohms: g.opt_num("3.5", "units.res"),
        power_mw: g.opt_num("4.75", "units.power"),
        current_ma: g.opt_num("5.125", "units.current"),
        voltage_volts: g.opt_num("6.5", "units.voltage"),
        frequency_mhz: g.opt_num("7.25", "units.freq"),
    });
    lib.macros = vec![simple_macro("m0")];
    lib
}

fn objtype(g: &mut G, default: LefPropertyDefinitionObjectType, label: &'static str) -> LefPropertyDefinitionObjectType {
    use LefPropertyDefinitionObjectType::*;
    let mut v = vec![default];
    for x in [Layer, Library, Macro, NonDefaultRule, Pin, Via, ViaRule] {
        if x != default {
            v.push(x);
        }
    }
    g.of(&v, label)
}

fn propdefs(g: &mut G) -> LefLibrary {
    use LefPropertyDefinitionObjectType as O;
    let mut lib = lib_v(Some("5.8"));
    let mut defs = vec![];
    // 0: string
    let o0 = objtype(g, O::Library, "propdefs.obj0");
    let n0 = g.name("ps", "propdefs.name0");
    let v0 = g.of(
        &[Some("\"sval\"".to_string()), Some("\"two words ; # x\"".to_string()), Some("\"\"".to_string()), None],
        "propdefs.sval",
    );
    defs.push(LefPropertyDefinition::LefString(o0, n0, v0));
    // 1: real, 2: integer
    let tail = |g: &mut G, v: &str, b: &str, e: &str, lv: &'static str, lb: &'static str, le: &'static str, lk: &'static str| {
        let kind = g.c.cost(4, lk);
        let val = if kind == 0 || kind == 1 { Some(g.num(v, lv)) } else { None };
        let range =
            if kind == 0 || kind == 2 { Some(LefPropertyRange { begin: g.num(b, lb), end: g.num(e, le) }) } else { None };
        (val, range)
    };
    let o1 = objtype(g, O::Macro, "propdefs.obj1");
    let (v1, r1) = tail(g, "1.5", "0.25", "2.75", "propdefs.rv", "propdefs.rb", "propdefs.re", "propdefs.rkind");
    defs.push(LefPropertyDefinition::LefReal(o1, "pr".into(), v1, r1));
    let o2 = objtype(g, O::Pin, "propdefs.obj2");
    let (v2, r2) = tail(g, "3", "-4", "9", "propdefs.iv", "propdefs.ib", "propdefs.ie", "propdefs.ikind");
    defs.push(LefPropertyDefinition::LefInteger(o2, "pi".into(), v2, r2));
    defs.push(LefPropertyDefinition::LefString(O::Layer, "pn".into(), None));
    // definitions sharing a name: under different object types, or even under the same one (they stay separate entries)
    match g.c.cost(3, "propdefs.shared-name") {
        0 => {}
        k => {
            for d in defs.iter_mut() {
                match d {
                    LefPropertyDefinition::LefString(o, n, _) | LefPropertyDefinition::LefReal(o, n, _, _) | LefPropertyDefinition::LefInteger(o, n, _, _) => {
                        *n = "weight".into();
                        if k == 2 {
                            *o = O::Macro;
                        }
                    }
                }
            }
        }
    }
    let n = g.of(&[4usize, 1, 2, 3], "propdefs.count");
    defs.truncate(n);
    lib.property_definitions = defs;
    lib.macros = vec![simple_macro("m0")];
    lib
}

fn ext(g: &mut G) -> LefLibrary {
    let mut lib = lib_v(Some("5.8"));
    let datas = ["CREATOR \"me\" ; REV 1.5 ", "MACRO END x ", "", "a "];
    let d0 = g.of(&datas, "ext.data0");
    let nm = g.of(&["\"tag\"", "\"two words\"", "\"\""], "ext.name0");
    let mut e = vec![
        LefExtension { name: nm.into(), data: d0.into() },
        LefExtension { name: "\"t2\"".into(), data: "- 5 ; ".into() },
    ];
    let n = g.of(&[2usize, 1], "ext.count");
    e.truncate(n);
    lib.extensions = e;
    lib.macros = vec![simple_macro("m0")];
    lib
}

fn symmetry_alts() -> Vec<Option<Vec<LefSymmetry>>> {
    use LefSymmetry::*;
    vec![Some(vec![X, Y]), Some(vec![X]), Some(vec![Y]), Some(vec![R90]), Some(vec![X, Y, R90]), Some(vec![R90, X]), Some(vec![]), None]
}

fn site(g: &mut G) -> LefLibrary {
    let mut lib = lib_v(Some("5.8"));
    let s0 = LefSite {
        name: g.name("core_site", "site.name0"),
        class: g.of(&[LefSiteClass::Core, LefSiteClass::Pad], "site.class0"),
        size: (g.num("0.46", "site.w0"), g.num("2.72", "site.h0")),
        symmetry: g.of(&symmetry_alts(), "site.sym0"),
        row_pattern: None,
    };
    let s1 = LefSite {
        name: "pad_site".into(),
        class: g.of(&[LefSiteClass::Pad, LefSiteClass::Core], "site.class1"),
        size: (d("10"), d("20.5")),
        symmetry: None,
        row_pattern: None,
    };
    let mut sites = vec![s0, s1];
    let n = g.of(&[2usize, 1], "site.count");
    sites.truncate(n);
    let mut m = simple_macro("m0");
    m.site = Some(sites[0].name.clone());
    lib.sites = sites;
    lib.macros = vec![m];
    lib
}

fn mask(g: &mut G, default: Option<&str>, label: &'static str) -> Option<LefMask> {
    let mut v: Vec<Option<&str>> = vec![default];
    for x in [None, Some("1"), Some("2"), Some("3"), Some("0")] {
        if x != default {
            v.push(x);
        }
    }
    g.of(&v, label).map(|s| LefMask { mask: d(s) })
}

/// `n` points; `100 + n` = the same `n` points followed by the first one again (an explicitly closed point list);
/// `200 + n` = the same `n` points with the second one stated twice in a row
fn poly_points(n: usize) -> Vec<LefPoint> {
    let all = [("-0.2", "-0.3"), ("-0.25", "0.2"), ("0.3", "0.35"), ("0.4", "-0.45"), ("0.1", "-0.6"), ("-0.1", "-0.7")];
    let (k, closed, twice) = if n >= 200 { (n - 200, false, true) } else if n >= 100 { (n - 100, true, false) } else { (n, false, false) };
    let mut v: Vec<LefPoint> = all[..k].iter().map(|(x, y)| pt(x, y)).collect();
    if closed {
        v.push(v[0].clone());
    }
    if twice {
        v.insert(1, v[1].clone());
    }
    v
}

fn via_fixed(g: &mut G) -> LefLibrary {
    let mut lib = lib_v(Some("5.8"));
    let m1 = mask(g, Some("1"), "viaf.mask_rect");
    let p1 = g.point("-0.5", "-0.6", "viaf.x1", "viaf.y1");
    let p2 = g.point("0.7", "0.8", "viaf.x2", "viaf.y2");
    let npoly = g.of(&[4usize, 3, 6, 104, 103, 204], "viaf.npoly");
    let m2 = mask(g, None, "viaf.mask_poly");
    let mut layers = vec![
        LefViaLayerGeometries { layer_name: g.name("met1", "viaf.lname"), shapes: vec![LefViaShape::Rect(m1, p1, p2)] },
        LefViaLayerGeometries {
            layer_name: "cut1".into(),
            shapes: vec![
                LefViaShape::Polygon(m2, poly_points(npoly)),
                LefViaShape::Rect(None, pt("-0.3", "-0.35"), pt("0.31", "0.36")),
            ],
        },
        LefViaLayerGeometries {
            layer_name: "met2".into(),
            shapes: vec![LefViaShape::Polygon(Some(LefMask { mask: d("2") }), poly_points(5))],
        },
    ];
    match g.c.cost(4, "viaf.layers") {
        0 => {}
        1 => layers.truncate(1),
        2 => layers.clear(),
        _ => layers[1].shapes.clear(),
    }
    let v0 = LefViaDef {
        name: g.name("via12", "viaf.name"),
        default: g.of(&[true, false], "viaf.default"),
        data: LefViaDefData::Fixed(LefFixedViaDef { resistance_ohms: g.opt_num("21.5", "viaf.res"), layers }),
        properties: None,
    };
    let v1 = LefViaDef {
        name: "via23".into(),
        default: false,
        data: LefViaDefData::Fixed(LefFixedViaDef {
            resistance_ohms: None,
            layers: vec![LefViaLayerGeometries {
                layer_name: "met3".into(),
                shapes: vec![LefViaShape::Rect(None, pt("-1", "-2"), pt("3", "4"))],
            }],
        }),
        properties: None,
    };
    let mut vias = vec![v0, v1];
    let n = g.of(&[2usize, 1], "viaf.count");
    vias.truncate(n);
    lib.vias = vias;
    lib.macros = vec![simple_macro("m0")];
    lib
}

fn via_gen(g: &mut G) -> LefLibrary {
    let mut lib = lib_v(Some("5.8"));
    let gen = LefGeneratedViaDef {
        via_rule_name: g.name("genrule", "viag.rule"),
        cut_size_x: g.num("0.21", "viag.csx"),
        cut_size_y: g.num("0.22", "viag.csy"),
        bot_metal_layer: g.name("met3", "viag.bot"),
        cut_layer: g.name("via3", "viag.cut"),
        top_metal_layer: g.name("met4", "viag.top"),
        cut_spacing_x: g.num("0.11", "viag.cspx"),
        cut_spacing_y: g.num("0.12", "viag.cspy"),
        bot_enc_x: g.num("0.31", "viag.bex"),
        bot_enc_y: g.num("0.32", "viag.bey"),
        top_enc_x: g.num("0.41", "viag.tex"),
        top_enc_y: g.num("0.42", "viag.tey"),
        rowcol: if g.c.cost(2, "viag.rowcol") == 0 {
            Some(LefRowCol { rows: g.num("2", "viag.rows"), cols: g.num("3", "viag.cols") })
        } else {
            None
        },
        origin: if g.c.cost(2, "viag.origin") == 0 { Some(g.point("0.51", "0.52", "viag.ox", "viag.oy")) } else { None },
        offset: if g.c.cost(2, "viag.offset") == 0 {
            Some(LefOffset {
                bot_x: g.num("0.61", "viag.obx"),
                bot_y: g.num("0.62", "viag.oby"),
                top_x: g.num("0.63", "viag.otx"),
                top_y: g.num("0.64", "viag.oty"),
            })
        } else {
            None
        },
        pattern: None,
    };
    lib.vias = vec![LefViaDef {
        name: g.name("via34", "viag.name"),
        default: g.of(&[true, false], "viag.default"),
        data: LefViaDefData::Generated(gen),
        properties: None,
    }];
    lib.macros = vec![simple_macro("m0")];
    lib
}

fn class_alts() -> Vec<Option<LefMacroClass>> {
    use LefMacroClass::*;
    let mut v = vec![Some(Core { tp: None })];
    for t in [
        LefCoreClassType::FeedThru,
        LefCoreClassType::TieHigh,
        LefCoreClassType::TieLow,
        LefCoreClassType::Spacer,
        LefCoreClassType::AntennaCell,
        LefCoreClassType::WellTap,
    ] {
        v.push(Some(Core { tp: Some(t) }));
    }
    v.push(Some(Cover { bump: false }));
    v.push(Some(Cover { bump: true }));
    v.push(Some(Ring));
    v.push(Some(Block { tp: None }));
    v.push(Some(Block { tp: Some(LefBlockClassType::BlackBox) }));
    v.push(Some(Block { tp: Some(LefBlockClassType::Soft) }));
    v.push(Some(Pad { tp: None }));
    for t in [
        LefPadClassType::Input,
        LefPadClassType::Output,
        LefPadClassType::Inout,
        LefPadClassType::Power,
        LefPadClassType::Spacer,
        LefPadClassType::AreaIo,
    ] {
        v.push(Some(Pad { tp: Some(t) }));
    }
    for t in [
        LefEndCapClassType::Pre,
        LefEndCapClassType::Post,
        LefEndCapClassType::TopLeft,
        LefEndCapClassType::TopRight,
        LefEndCapClassType::BottomLeft,
        LefEndCapClassType::BottomRight,
    ] {
        v.push(Some(EndCap { tp: t }));
    }
    v.push(None);
    v
}

fn macro_attrs(g: &mut G) -> LefLibrary {
    let old = g.c.free(2, "macro.version") == 1;
    let mut lib = lib_v(Some(if old { "5.4" } else { "5.8" }));
    let mut m = LefMacro::new(g.name("mac_a", "macro.name"));
    m.class = g.of(&class_alts(), "macro.class");
    m.fixed_mask = g.of(&[true, false], "macro.fixedmask");
    let fk = g.c.cost(11, "macro.foreign");
    m.foreign = if fk == 10 {
        None
    } else {
        use LefOrient::*;
        let cell_name = g.name("fcell", "macro.fname");
        let (p, o) = match fk {
            0 => (true, Some(FS)),
            1 => (true, Some(N)),
            2 => (true, Some(S)),
            3 => (true, Some(E)),
            4 => (true, Some(W)),
            5 => (true, Some(FN)),
            6 => (true, Some(FE)),
            7 => (true, Some(FW)),
            8 => (true, None),
            _ => (false, None),
        };
        let pt = if p { Some(g.point("0.15", "-0.25", "macro.fx", "macro.fy")) } else { None };
        Some(LefForeign { cell_name, pt, orient: o })
    };
    m.origin = if g.c.cost(2, "macro.origin") == 0 { Some(g.point("0.35", "0.45", "macro.ox", "macro.oy")) } else { None };
    if old {
        use LefDefSource::*;
        m.source = g.of(&[Some(User), Some(Netlist), Some(Dist), Some(Timing), None], "macro.source");
    }
    m.eeq = g.opt_name("eq_cell", "macro.eeq");
    m.size = if g.c.cost(2, "macro.size") == 0 { Some((g.num("1.38", "macro.w"), g.num("2.72", "macro.h"))) } else { None };
    m.symmetry = g.of(&symmetry_alts(), "macro.sym");
    m.site = g.opt_name("core_site", "macro.site");
    m.pins = vec![simple_pin("p0", "met1", rect("0.1", "0.2", "0.3", "0.4"))];
    lib.fixed_mask = g.of(&[false, true], "macro.lib-fixedmask");
    lib.macros = vec![m, simple_macro("m_after")];
    lib
}

fn pin_attrs(g: &mut G) -> LefLibrary {
    let mut lib = lib_v(Some("5.8"));
    use LefPinDirection as D;
    let mut p = simple_pin("x", "met1", rect("0.1", "0.2", "0.3", "0.4"));
    p.name = g.name("pin_a", "pin.name");
    p.direction = g.of(
        &[
            Some(D::Output { tristate: true }),
            Some(D::Output { tristate: false }),
            Some(D::Input),
            Some(D::Inout),
            Some(D::FeedThru),
            None,
        ],
        "pin.direction",
    );
    {
        use LefPinUse::*;
        p.use_ = g.of(&[Some(Clock), Some(Signal), Some(Analog), Some(Power), Some(Ground), None], "pin.use");
    }
    {
        use LefPinShape::*;
        p.shape = g.of(&[Some(Abutment), Some(Ring), Some(FeedThru), None], "pin.shape");
    }
    {
        use LefAntennaModel::*;
        p.antenna_model = g.of(&[Some(Oxide2), Some(Oxide1), Some(Oxide3), Some(Oxide4), None], "pin.antmodel");
    }
    p.taper_rule = g.opt_name("taper_r", "pin.taper");
    p.supply_sensitivity = g.opt_name("vdd_pin", "pin.supply");
    p.ground_sensitivity = g.opt_name("vss_pin", "pin.ground");
    p.must_join = g.opt_name("join_pin", "pin.mustjoin");
    p.net_expr = g.of(
        &[Some("\"power1 VDD\"".to_string()), Some("\"x\"".to_string()), Some("\"a ; # END b\"".to_string()), None],
        "pin.netexpr",
    );
    let mut m = simple_macro("mac_a");
    m.pins = vec![p, simple_pin("p_after", "met2", rect("1.1", "1.2", "1.3", "1.4"))];
    lib.macros = vec![m];
    lib
}

pub const ANTENNA_KEYS: &[&str] = &[
    "ANTENNADIFFAREA",
    "ANTENNAGATEAREA",
    "ANTENNAPARTIALMETALAREA",
    "ANTENNAPARTIALMETALSIDEAREA",
    "ANTENNAPARTIALCUTAREA",
    "ANTENNAPARTIALDIFFAREA",
    "ANTENNAMAXAREACAR",
    "ANTENNAMAXSIDEAREACAR",
    "ANTENNAMAXCUTCAR",
];

fn pin_antenna(g: &mut G) -> LefLibrary {
    let mut lib = lib_v(Some("5.8"));
    let mut p = simple_pin("pin_a", "met1", rect("0.1", "0.2", "0.3", "0.4"));
    p.antenna_model = Some(LefAntennaModel::Oxide1);
    let vals = ["1.1", "2.2", "3.3", "4.4", "5.5", "6.6", "7.7", "8.8", "9.9"];
    let mut attrs = vec![];
    for (i, k) in ANTENNA_KEYS.iter().enumerate() {
        let with_layer = (g.c.cost(2, "antenna.layer") == 0) == (i % 2 == 0);
        let val = if i < 2 { g.num(vals[i], "antenna.val") } else { d(vals[i]) };
        attrs.push(LefPinAntennaAttr {
            key: k.to_string(),
            val,
            layer: if with_layer { Some(format!("met{}", i + 1)) } else { None },
        });
    }
    match g.c.cost(4, "antenna.list") {
        0 => {}
        1 => attrs.truncate(1),
        2 => {
            // the same key twice with different layers
            attrs.truncate(2);
            attrs.push(LefPinAntennaAttr { key: ANTENNA_KEYS[0].into(), val: d("12.5"), layer: Some("met9".into()) });
        }
        _ => attrs.reverse(),
    }
    p.antenna_attrs = attrs;
    let mut m = simple_macro("mac_a");
    m.pins = vec![p, simple_pin("p_after", "met2", rect("1.1", "1.2", "1.3", "1.4"))];
    lib.macros = vec![m];
    lib
}

fn ports(g: &mut G) -> LefLibrary {
    let mut lib = lib_v(Some("5.8"));
    use LefPortClass as PC;
    let l0 = LefLayerGeometries {
        layer_name: g.name("met1", "ports.lname"),
        geometries: vec![rect("0.1", "0.2", "0.3", "0.4")],
        vias: vec![],
        except_pg_net: g.of(&[Some(true), None], "ports.epg"),
        spacing: match g.c.cost(3, "ports.spacing") {
            0 => Some(LefLayerSpacing::Spacing(g.num("0.21", "ports.spv"))),
            1 => Some(LefLayerSpacing::DesignRuleWidth(g.num("0.22", "ports.drw"))),
            _ => None,
        },
        width: g.opt_num("0.33", "ports.width"),
    };
    let l1 = LefLayerGeometries {
        layer_name: "met2".into(),
        geometries: vec![rect("0.5", "0.6", "0.7", "0.8")],
        vias: vec![],
        except_pg_net: None,
        spacing: Some(LefLayerSpacing::DesignRuleWidth(d("0.44"))),
        width: None,
    };
    let mut port0 = LefPort { class: g.of(&[Some(PC::Core), Some(PC::None), Some(PC::Bump), None], "ports.class0"), layers: vec![l0, l1] };
    match g.c.cost(5, "ports.nlayers") {
        0 => {}
        1 => port0.layers.truncate(1),
        2 => port0.layers.clear(),
        // two consecutive LAYER statements of one port naming the same layer with the same options (listed
        // first / listed last in the port)
        k => {
            let at = if k == 3 { 0 } else { 1 };
            let mut twin = port0.layers[at].clone();
            twin.geometries = vec![rect("4", "4", "5", "5")];
            port0.layers.insert(at + 1, twin);
        }
    }
    let port1 = LefPort {
        class: g.of(&[None, Some(PC::Bump)], "ports.class1"),
        layers: vec![layer("met3", vec![rect("1.1", "1.2", "1.3", "1.4")])],
    };
    let mut p = simple_pin("pin_a", "x", rect("0", "0", "0", "0"));
    p.ports = vec![port0, port1];
    match g.c.cost(3, "ports.nports") {
        0 => {}
        1 => p.ports.truncate(1),
        _ => p.ports.clear(),
    }
    let mut m = simple_macro("mac_a");
    m.pins = vec![p, simple_pin("p_after", "met4", rect("2.1", "2.2", "2.3", "2.4"))];
    m.obs = vec![layer("met5", vec![rect("3.1", "3.2", "3.3", "3.4")])];
    lib.macros = vec![m];
    lib
}

fn geoms(g: &mut G) -> LefLibrary {
    // the geometries (masks included) under the current version, without a VERSION statement, and under older versions
    let mut lib = lib_v([Some("5.8"), None, Some("5.7"), Some("5.5")][g.c.free(4, "geoms.version")]);
    let r0 = LefShape::Rect(
        mask(g, None, "geoms.mask0"),
        g.point("0.11", "0.12", "geoms.x1", "geoms.y1"),
        g.point("0.13", "0.14", "geoms.x2", "geoms.y2"),
    );
    let mut pat = LefStepPattern {
        numx: g.num("2", "geoms.numx"),
        numy: g.num("3", "geoms.numy"),
        spacex: g.num("0.55", "geoms.spx"),
        spacey: g.num("0.65", "geoms.spy"),
    };
    // degenerate step patterns: a single copy, a single column
    match g.c.cost(3, "geoms.do") {
        0 => {}
        1 => (pat.numx, pat.numy) = (d("1"), d("1")),
        _ => (pat.numx, pat.numy) = (d("1"), d("4")),
    }
    let pat2 = LefStepPattern { numx: d("4"), numy: d("5"), spacex: d("1.5"), spacey: d("-2.5") };
    let npoly = g.of(&[4usize, 3, 6, 104, 103, 204], "geoms.npoly");
    let npath = g.of(&[2usize, 3, 5, 103, 104, 203], "geoms.npath");
    let m1 = mask(g, Some("1"), "geoms.mask1");
    let mut gs = vec![
        LefGeometry::Shape(r0),
        LefGeometry::Shape(LefShape::Rect(m1, pt("0.21", "0.22"), pt("0.23", "0.24"))),
        LefGeometry::Iterate { shape: LefShape::Rect(None, pt("0.31", "0.32"), pt("0.33", "0.34")), pattern: pat },
        LefGeometry::Iterate {
            shape: LefShape::Rect(Some(LefMask { mask: d("2") }), pt("0.41", "0.42"), pt("0.43", "0.44")),
            pattern: pat2.clone(),
        },
        LefGeometry::Shape(LefShape::Polygon(None, poly_points(npoly))),
        LefGeometry::Iterate { shape: LefShape::Polygon(Some(LefMask { mask: d("3") }), poly_points(3)), pattern: pat2.clone() },
        LefGeometry::Shape(LefShape::Path(None, poly_points(npath))),
        LefGeometry::Shape(LefShape::Path(Some(LefMask { mask: d("1") }), poly_points(3))),
        LefGeometry::Iterate { shape: LefShape::Path(None, poly_points(2)), pattern: pat2 },
        // a rectangle stated upper-right corner first
        LefGeometry::Shape(LefShape::Rect(None, pt("0.53", "0.54"), pt("0.51", "0.52"))),
    ];
    let mut vias = vec![
        LefVia { via_name: g.name("via12", "geoms.vianame"), pt: g.point("1.5", "2.5", "geoms.vx", "geoms.vy") },
        LefVia { via_name: "via23".into(), pt: pt("-1.25", "-2.75") },
    ];
    // default: everything except ITERATE on POLYGON / PATH (indices 5 and 8), which are alternatives
    let n = gs.len();
    let sel = g.c.cost(n + 4, "geoms.select");
    if sel == 0 {
        gs.remove(8);
        gs.remove(5);
    } else if sel <= n {
        gs = vec![gs[sel - 1].clone()];
        vias.clear();
    } else if sel == n + 1 {
        gs.clear();
    } else if sel == n + 2 {
        gs.remove(8);
        gs.remove(5);
        vias.clear();
    }
    // sel == n + 3: all nine geometries
    let l = LefLayerGeometries { layer_name: "met1".into(), geometries: gs, vias, except_pg_net: None, spacing: None, width: Some(d("0.07")) };
    let mut p = simple_pin("pin_a", "x", rect("0", "0", "0", "0"));
    p.ports = vec![LefPort { class: None, layers: vec![l, layer("met2", vec![rect("5", "6", "7", "8")])] }];
    let mut m = simple_macro("mac_a");
    m.pins = vec![p];
    lib.macros = vec![m];
    lib
}

fn obs(g: &mut G) -> LefLibrary {
    let mut lib = lib_v(Some("5.8"));
    let l0 = LefLayerGeometries {
        layer_name: g.name("met1", "obs.lname"),
        geometries: vec![LefGeometry::Shape(LefShape::Rect(
            None,
            g.point("0.1", "0.2", "obs.x1", "obs.y1"),
            g.point("0.3", "0.4", "obs.x2", "obs.y2"),
        ))],
        vias: vec![LefVia { via_name: "via12".into(), pt: pt("0.5", "0.6") }],
        except_pg_net: None,
        spacing: g.of(&[Some(LefLayerSpacing::Spacing(d("0.21"))), Some(LefLayerSpacing::DesignRuleWidth(d("0.21"))), None], "obs.spacing"),
        width: None,
    };
    let l1 = LefLayerGeometries {
        layer_name: "met2".into(),
        geometries: vec![LefGeometry::Shape(LefShape::Polygon(None, poly_points(4)))],
        vias: vec![],
        except_pg_net: g.of(&[Some(true), None], "obs.epg"),
        spacing: None,
        width: g.opt_num("0.9", "obs.width"),
    };
    let mut m = simple_macro("mac_a");
    m.pins = vec![simple_pin("p0", "met3", rect("1.1", "1.2", "1.3", "1.4"))];
    m.obs = vec![l0, l1];
    match g.c.cost(5, "obs.count") {
        0 => {}
        1 => m.obs.truncate(1),
        2 => {
            m.obs.swap(0, 1);
        }
        // two / three consecutive LAYER statements naming the same layer with the same options
        k => {
            let mut twin = m.obs[0].clone();
            twin.geometries = vec![rect("4", "4", "5", "5")];
            twin.vias = vec![];
            m.obs.insert(1, twin.clone());
            if k == 4 {
                m.obs.insert(2, twin);
            }
        }
    }
    lib.macros = vec![m, simple_macro("m_after")];
    lib
}

fn density(g: &mut G) -> LefLibrary {
    let mut lib = lib_v(Some("5.8"));
    let r0 = LefDensityRectangle {
        pt1: g.point("0", "0.5", "density.x1", "density.y1"),
        pt2: g.point("40.5", "50", "density.x2", "density.y2"),
        density_value: g.num("46.6", "density.val"),
    };
    let mut ds = vec![
        LefDensityGeometries {
            layer_name: g.name("met6", "density.lname"),
            geometries: vec![r0, LefDensityRectangle { pt1: pt("0", "50"), pt2: pt("100", "100.5"), density_value: d("90") }],
        },
        LefDensityGeometries {
            layer_name: "met2".into(),
            geometries: vec![LefDensityRectangle { pt1: pt("1", "2"), pt2: pt("3", "4"), density_value: d("5.55") }],
        },
    ];
    match g.c.cost(5, "density.shape") {
        0 => {}
        1 => ds.truncate(1),
        2 => ds[0].geometries.truncate(1),
        3 => ds[1].geometries.clear(),
        // an empty DENSITY block
        _ => ds.clear(),
    }
    let mut m = simple_macro("mac_a");
    m.density = Some(ds);
    m.pins = vec![simple_pin("p0", "met3", rect("1.1", "1.2", "1.3", "1.4"))];
    lib.macros = vec![m, simple_macro("m_after")];
    lib
}

fn property(g: &mut G) -> LefLibrary {
    let mut lib = lib_v(Some("5.8"));
    let v0 = g.of(&["1.5", "\"str val\"", "word", "-3", "\"\"", ".50", "-.25", "007", "1.50", "2.", "\" #x\"", "\"C:\\cells\\\"", "\"\\\""], "property.v0");
    let mut mp = vec![prop(&g.name("pa", "property.n0"), v0), prop("pb", "\"str ; val\""), prop("pc", "word")];
    let n = g.of(&[3usize, 1, 0], "property.count");
    mp.truncate(n);
    let mut p = simple_pin("p0", "met3", rect("1.1", "1.2", "1.3", "1.4"));
    p.properties = match g.c.cost(3, "property.pin") {
        0 => vec![prop("pp", "7"), prop("pq", "\"q\"")],
        1 => vec![prop("pp", "7")],
        _ => vec![],
    };
    let mut m = simple_macro("mac_a");
    m.properties = mp;
    m.pins = vec![p];
    lib.macros = vec![m, simple_macro("m_after")];
    lib
}

fn multi(g: &mut G) -> LefLibrary {
    let old = g.c.free(2, "multi.version") == 1;
    let mut lib = lib_v(Some(if old { "5.3" } else { "5.7" }));
    lib.bus_bit_chars = Some(('[', ']'));
    lib.divider_char = Some('/');
    if old {
        lib.names_case_sensitive = Some(LefOnOff::On);
    }
    lib.units = Some(LefUnits { database_microns: Some(LefDbuPerMicron(1000)), capacitance_pf: Some(d("1")), ..Default::default() });
    lib.manufacturing_grid = Some(d("0.005"));
    lib.property_definitions =
        vec![LefPropertyDefinition::LefReal(LefPropertyDefinitionObjectType::Macro, "area".into(), None, None)];
    lib.vias = vec![LefViaDef {
        name: "via12".into(),
        default: true,
        data: LefViaDefData::Fixed(LefFixedViaDef {
            resistance_ohms: None,
            layers: vec![LefViaLayerGeometries {
                layer_name: "cut1".into(),
                shapes: vec![LefViaShape::Rect(None, pt("-0.1", "-0.1"), pt("0.1", "0.1"))],
            }],
        }),
        properties: None,
    }];
    lib.sites = vec![LefSite {
        name: "unit".into(),
        class: LefSiteClass::Core,
        size: (d("0.46"), d("2.72")),
        symmetry: Some(vec![LefSymmetry::Y]),
        row_pattern: None,
    }];
    let mk = |mn: &str, k: usize| {
        let mut m = simple_macro(mn);
        m.class = Some(LefMacroClass::Core { tp: None });
        m.origin = Some(pt("0", "0"));
        m.site = Some("unit".into());
        m.symmetry = Some(vec![LefSymmetry::X, LefSymmetry::Y]);
        if old {
            m.source = Some(LefDefSource::User);
        }
        let base = format!("{k}");
        let mut a = simple_pin(&format!("A{k}"), "met1", rect(&format!("{base}.1"), "0.2", &format!("{base}.3"), "0.4"));
        a.use_ = Some(LefPinUse::Signal);
        a.antenna_attrs = vec![LefPinAntennaAttr { key: "ANTENNAGATEAREA".into(), val: d("0.159"), layer: None }];
        let mut y = simple_pin(&format!("Y{k}"), "met1", rect(&format!("{base}.5"), "0.6", &format!("{base}.7"), "0.8"));
        y.direction = Some(LefPinDirection::Output { tristate: false });
        y.ports.push(LefPort { class: Some(LefPortClass::Core), layers: vec![layer("met2", vec![rect("1", "2", "3", "4")])] });
        m.pins = vec![a, y];
        m.obs = vec![layer("met1", vec![rect(&format!("{base}.05"), "0.05", &format!("{base}.95"), "2.5")])];
        m
    };
    lib.macros = vec![mk("inv_1", 1), mk("buf_2", 2)];
    lib.extensions = vec![LefExtension { name: "\"vendor\"".into(), data: "REV 2 ; ".into() }];
    lib
}

/// Generate one library value. Returns (focus name, value).
pub fn gen_library(c: &mut Chooser) -> (&'static str, LefLibrary) {
    let f = c.free(FOCI.len(), "focus");
    let mut g = G { c };
    let lib = match FOCI[f] {
        "minimal" => minimal(&mut g),
        "header" => header(&mut g),
        "units" => units(&mut g),
        "propdefs" => propdefs(&mut g),
        "ext" => ext(&mut g),
        "site" => site(&mut g),
        "via_fixed" => via_fixed(&mut g),
        "via_gen" => via_gen(&mut g),
        "macro_attrs" => macro_attrs(&mut g),
        "pin_attrs" => pin_attrs(&mut g),
        "pin_antenna" => pin_antenna(&mut g),
        "ports" => ports(&mut g),
        "geoms" => geoms(&mut g),
        "obs" => obs(&mut g),
        "density" => density(&mut g),
        "property" => property(&mut g),
        "multi" => multi(&mut g),
        _ => unreachable!(),
    };
    (FOCI[f], lib)
}
