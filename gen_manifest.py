#!/usr/bin/env python3
"""Regenerates MANIFEST.json from the table below (kept in one place so the file is always valid)."""
import json, sys, os
HERE = os.path.dirname(os.path.abspath(__file__))
props = [json.loads(l) for l in open(os.path.join(HERE, "properties.jsonl"))]
ids = [p["id"] for p in props]

# id -> (level text, level note, technique, design ref)
CLAIMED = {}
def claim(i, text, note, technique):
    CLAIMED[i] = dict(text=text, note=note, technique=technique)

exec(open(os.path.join(HERE, "manifest_claims.py")).read())

checks = []
for i in ids:
    if i not in CLAIMED: continue
    c = CLAIMED[i]
    checks.append({
        "property_id": i,
        "quick_cmd": f"./check {i} quick",
        "thorough_cmd": f"./check {i} thorough",
        "evidence_file": f"/verif/evidence/{i}.json",
        "replay_cmd_template": f"./check {i} --replay {{path}}",
        "engine": "l21mc",
        "level_claimed": {"category": "model_checking", "text": c["text"], "design_ref": f"DESIGN.md section 2, {i}"},
        "level_note": c["note"],
        "technique": c["technique"],
    })
na = [{"property_id": i, "reason": NOT_APPLICABLE.get(i, "check not built yet in this round; see DESIGN.md section 6 (build order)")} for i in ids if i not in CLAIMED]
m = {
    "version": 1,
    "setup_cmd": "./check --build",
    "hooks": {
        "guard": "layout21_verif",
        "enable": "no hooks are needed: every property is observed through the crates' public API (path dependencies on /repo's working tree); the guard name is reserved",
        "baseline_off_cmd": "cd /repo && cargo test --workspace --no-fail-fast --offline",
        "source_commits": [],
        "add_only": True,
    },
    "engines": [{
        "name": "l21mc",
        "path": "/verif/harness",
        "serves_properties": [c["property_id"] for c in checks],
        "kind_free_text": "stateless explicit-state explorer (deviation-bounded / exhaustive enumeration of choice sequences) running the real crate code in sandboxed worker processes against independent reference models",
    }],
    "checks": checks,
    "notes": "All checks: ./check <id> <quick|thorough>; exit 0 held (KNOWN-FINDING lines possible), 1 VIOLATION, 2 machinery failure. Known findings: /verif/KNOWN_FINDINGS.txt. Seeded changes: /verif/seeded/.",
    "not_applicable": na,
}
json.dump(m, open(os.path.join(HERE, "MANIFEST.json"), "w"), indent=1)
print("claimed:", [c["property_id"] for c in checks])
